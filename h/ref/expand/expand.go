//go:build verif

// Package expand is an independent reference model of RFC 9380 section 5.3:
// expand_message_xmd (5.3.1), expand_message_xof (5.3.2) and the oversize-DST
// rule (5.3.3), written from the RFC text over std crypto hashes and a
// caller-supplied XOF function.
package expand

import (
	"crypto"
	_ "crypto/sha256"
	_ "crypto/sha512"
	"errors"
)

var ErrAbort = errors.New("ref/expand: ABORT")

func i2osp(v, n int) []byte {
	out := make([]byte, n)
	for i := n - 1; i >= 0; i-- {
		out[i] = byte(v)
		v >>= 8
	}
	if v != 0 {
		panic("i2osp overflow")
	}
	return out
}

func cat(parts ...[]byte) []byte {
	var out []byte
	for _, p := range parts {
		out = append(out, p...)
	}
	return out
}

func hashOf(h crypto.Hash, parts ...[]byte) []byte {
	H := h.New()
	H.Write(cat(parts...))
	return H.Sum(nil)
}

const oversize = "H2C-OVERSIZE-DST-"

// XMD is expand_message_xmd(msg, DST, len_in_bytes) with hash h.
func XMD(h crypto.Hash, msg, dst []byte, n int) ([]byte, error) {
	bInBytes := h.Size()
	sInBytes := h.New().BlockSize()
	if len(dst) > 255 {
		dst = hashOf(h, []byte(oversize), dst)
	}
	ell := (n + bInBytes - 1) / bInBytes
	if ell > 255 || n > 65535 || len(dst) > 255 {
		return nil, ErrAbort
	}
	dstPrime := cat(dst, i2osp(len(dst), 1))
	zPad := i2osp(0, sInBytes)
	lib := i2osp(n, 2)
	msgPrime := cat(zPad, msg, lib, i2osp(0, 1), dstPrime)
	b0 := hashOf(h, msgPrime)
	b := make([][]byte, ell+1)
	b[0] = b0
	if ell >= 1 {
		b[1] = hashOf(h, b0, i2osp(1, 1), dstPrime)
	}
	for i := 2; i <= ell; i++ {
		x := make([]byte, len(b0))
		for j := range x {
			x[j] = b0[j] ^ b[i-1][j]
		}
		b[i] = hashOf(h, x, i2osp(i, 1), dstPrime)
	}
	var uniform []byte
	for i := 1; i <= ell; i++ {
		uniform = append(uniform, b[i]...)
	}
	return uniform[:n], nil
}

// XOF is expand_message_xof(msg, DST, len_in_bytes) for the XOF function
// xof(input, outLen) and target security level k (bits).
func XOF(xof func(in []byte, n int) []byte, k int, msg, dst []byte, n int) ([]byte, error) {
	if len(dst) > 255 {
		dst = xof(cat([]byte(oversize), dst), (2*k+7)/8)
	}
	if n > 65535 || len(dst) > 255 {
		return nil, ErrAbort
	}
	dstPrime := cat(dst, i2osp(len(dst), 1))
	msgPrime := cat(msg, i2osp(n, 2), dstPrime)
	return xof(msgPrime, n), nil
}
