//go:build verif

package zzverifc19

import (
	"math/big"
	"math/bits"

	"github.com/cloudflare/circl/internal/zzverif/lib"
)

// Bad is an encoded vector that is NOT the encoding of a valid measurement.
type Bad struct {
	Class string
	Enc   []*big.Int
}

var one = big.NewInt(1)

func isBit(x *big.Int) bool { return x.Sign() == 0 || x.Cmp(one) == 0 }

func allBits(v []*big.Int) bool {
	for _, x := range v {
		if !isBit(x) {
			return false
		}
	}
	return true
}

// intLE is sum 2^i v[i] over the integers (entries must be bits).
func intLE(v []*big.Int) *big.Int {
	acc := new(big.Int)
	for i := len(v) - 1; i >= 0; i-- {
		acc.Lsh(acc, 1)
		acc.Add(acc, v[i])
	}
	return acc
}

func sumInts(v []*big.Int) *big.Int {
	acc := new(big.Int)
	for _, x := range v {
		acc.Add(acc, x)
	}
	return acc
}

// The valid sets, stated over the encoded vector (elements reduced mod p).

func ValidCount(e []*big.Int) bool { return len(e) == 1 && isBit(e[0]) }

// ValidSum: all entries are bits, the first half is a <= max over the
// integers and the second half is a + offset over the integers.
func ValidSum(max uint64, e []*big.Int) bool {
	nb := SumBits(max)
	if len(e) != 2*nb || !allBits(e) {
		return false
	}
	a, b := intLE(e[:nb]), intLE(e[nb:])
	return a.Cmp(bi(max)) <= 0 && b.Cmp(new(big.Int).Add(a, SumOffset(max))) == 0
}

func ValidSumVec(e []*big.Int) bool { return allBits(e) }

func ValidHistogram(e []*big.Int) bool { return allBits(e) && sumInts(e).Cmp(one) == 0 }

func ValidMHCV(length, maxWeight uint, e []*big.Int) bool {
	nb := bits.Len64(uint64(maxWeight))
	if len(e) != int(length)+nb || !allBits(e) {
		return false
	}
	w := sumInts(e[:length])
	rep := intLE(e[length:])
	return w.Cmp(bi(uint64(maxWeight))) <= 0 && rep.Cmp(new(big.Int).Add(w, SumOffset(uint64(maxWeight)))) == 0
}

func clone(v []*big.Int) []*big.Int {
	out := make([]*big.Int, len(v))
	for i, x := range v {
		out[i] = new(big.Int).Set(x)
	}
	return out
}

// nonBits are the field elements the bit check x(x-1) = 0 must reject;
// 2, -1, -2, 1/2, p-3, and a random one.
func nonBits(r *lib.Rng, f *Field) []*big.Int {
	half := new(big.Int).Add(f.P, one)
	half.Rsh(half, 1)
	rnd := new(big.Int).SetBytes(r.Bytes(f.Size + 8))
	rnd.Mod(rnd, new(big.Int).Sub(f.P, big.NewInt(2)))
	rnd.Add(rnd, big.NewInt(2))
	return []*big.Int{
		big.NewInt(2), new(big.Int).Sub(f.P, one), new(big.Int).Sub(f.P, big.NewInt(2)), half,
		new(big.Int).Sub(f.P, big.NewInt(3)), big.NewInt(3), rnd,
	}
}

func pickNonBit(r *lib.Rng, f *Field) *big.Int {
	nb := nonBits(r, f)
	return nb[r.Intn(len(nb))]
}

func filter(valid func([]*big.Int) bool, f *Field, bads []Bad) []Bad {
	for i := range bads {
		for j := range bads[i].Enc {
			bads[i].Enc[j] = new(big.Int).Mod(bads[i].Enc[j], f.P)
		}
		if valid(bads[i].Enc) {
			panic("zzverifc19: generator of invalid encodings produced a valid one: " + bads[i].Class + " " + VecStr(bads[i].Enc))
		}
	}
	return bads
}

func BadCount(r *lib.Rng) []Bad {
	var out []Bad
	for _, x := range nonBits(r, F64) {
		out = append(out, Bad{"non-bit", []*big.Int{x}})
	}
	return filter(ValidCount, F64, out)
}

// compensate moves weight between neighbouring positions of a little-endian
// bit vector without changing sum 2^i v[i]: v[i] = 1 becomes 0 and v[i-1]
// grows by 2.  Returns false if there is no such position.
func compensate(r *lib.Rng, v []*big.Int) bool {
	var cand []int
	for i := 1; i < len(v); i++ {
		if v[i].Cmp(one) == 0 {
			cand = append(cand, i)
		}
	}
	if len(cand) == 0 {
		return false
	}
	i := cand[r.Intn(len(cand))]
	v[i] = new(big.Int)
	v[i-1] = new(big.Int).Add(v[i-1], big.NewInt(2))
	return true
}

// BadSum: invalid encodings for Sum(max); base is a valid measurement.
func BadSum(r *lib.Rng, max uint64, base uint64) []Bad {
	f := F64
	nb := SumBits(max)
	if nb == 0 {
		return nil
	}
	off := SumOffset(max)
	enc := func(a, b *big.Int) []*big.Int { return append(BitsLE(a, nb), BitsLE(b, nb)...) }
	mod2 := new(big.Int).Lsh(one, uint(nb))
	good := enc(bi(base), new(big.Int).Add(bi(base), off))
	var out []Bad
	// one entry is not a bit (range check very likely violated as well)
	for _, half := range []int{0, 1} {
		e := clone(good)
		e[half*nb+r.Intn(nb)] = pickNonBit(r, f)
		out = append(out, Bad{"non-bit", e})
	}
	// entries not bits, but both joined values unchanged: only the bit check can object
	for _, half := range []int{0, 1} {
		e := clone(good)
		if compensate(r, e[half*nb:(half+1)*nb]) {
			out = append(out, Bad{"non-bit-value-preserving", e})
		}
	}
	// all bits, but the second half is not first half + offset
	{
		b := new(big.Int).Add(bi(base), off)
		if b.Sign() > 0 && r.Bool() {
			b.Sub(b, one)
		} else {
			b.Add(b, one)
			b.Mod(b, mod2)
		}
		out = append(out, Bad{"offset-mismatch", enc(bi(base), b)})
		rb := new(big.Int).SetUint64(r.U64())
		rb.Mod(rb, mod2)
		if rb.Cmp(new(big.Int).Add(bi(base), off)) != 0 {
			out = append(out, Bad{"offset-mismatch", enc(bi(base), rb)})
		}
	}
	// a > max with all entries bits: the second half cannot hold a + offset >= 2^bits
	top := new(big.Int).Sub(mod2, one)
	if bi(max).Cmp(top) < 0 {
		for _, a := range []*big.Int{new(big.Int).Add(bi(max), one), top} {
			b := new(big.Int).Add(a, off)
			b.Mod(b, mod2)
			out = append(out, Bad{"out-of-range", enc(a, b)})
			out = append(out, Bad{"out-of-range", enc(a, top)})
		}
	}
	// a = 2^bits (> max) written with a top entry of 2, second half likewise:
	// range relation holds, entries are not bits
	{
		a := make([]*big.Int, nb)
		b := BitsLE(off, nb)
		for i := range a {
			a[i] = new(big.Int)
		}
		a[nb-1] = big.NewInt(2)
		b[nb-1] = new(big.Int).Add(b[nb-1], big.NewInt(2))
		out = append(out, Bad{"out-of-range-non-bit", append(a, b...)})
	}
	// 64 entries per half: the joined values live modulo p < 2^64, so
	// b = a + offset - p is a bit vector for which the range relation holds
	// in the field although a > max.  Only where a mod p > max, i.e. where
	// the report really contributes an out-of-range value.
	if nb == 64 {
		for _, a := range []*big.Int{new(big.Int).Add(bi(max), one), new(big.Int).Sub(f.P, one)} {
			if a.Cmp(bi(max)) <= 0 || a.Cmp(f.P) >= 0 {
				continue
			}
			b := new(big.Int).Add(a, off)
			b.Sub(b, f.P)
			if b.Sign() < 0 || b.Cmp(mod2) >= 0 {
				continue
			}
			out = append(out, Bad{"out-of-range-wraps-mod-p", enc(a, b)})
		}
	}
	return filter(func(e []*big.Int) bool { return ValidSum(max, e) }, f, out)
}

func BadSumVec(r *lib.Rng, length, nbits uint, base []uint64) []Bad {
	f := F128
	n := int(length * nbits)
	if n == 0 {
		return nil
	}
	var good []*big.Int
	for _, x := range base {
		good = append(good, BitsLE(bi(x), int(nbits))...)
	}
	var out []Bad
	for k := 0; k < 3; k++ {
		e := clone(good)
		pos := r.Intn(n)
		switch k {
		case 1:
			pos = 0
		case 2:
			pos = n - 1
		}
		e[pos] = pickNonBit(r, f)
		out = append(out, Bad{"non-bit", e})
	}
	if nbits >= 2 {
		e := clone(good)
		i := r.Intn(int(length))
		if compensate(r, e[uint(i)*nbits:uint(i+1)*nbits]) {
			out = append(out, Bad{"non-bit-value-preserving", e})
		}
	}
	{
		e := make([]*big.Int, n)
		for i := range e {
			e[i] = big.NewInt(2)
		}
		out = append(out, Bad{"all-twos", e})
	}
	return filter(ValidSumVec, f, out)
}

func BadHistogram(r *lib.Rng, length uint) []Bad {
	f := F128
	n := int(length)
	if n == 0 {
		return nil
	}
	zero := func() []*big.Int {
		e := make([]*big.Int, n)
		for i := range e {
			e[i] = new(big.Int)
		}
		return e
	}
	var out []Bad
	out = append(out, Bad{"all-zero", zero()})
	if n >= 2 {
		e := zero()
		e[0], e[n-1] = big.NewInt(1), big.NewInt(1)
		out = append(out, Bad{"two-hot", e})
		e = zero()
		i := r.Intn(n - 1)
		e[i], e[i+1] = big.NewInt(1), big.NewInt(1)
		out = append(out, Bad{"two-hot", e})
		e = zero()
		for i := range e {
			e[i] = big.NewInt(1)
		}
		out = append(out, Bad{"all-ones", e})
		// entries sum to one but are not bits: only the bit check can object
		e = zero()
		i, j := r.Intn(n), 0
		for j = r.Intn(n); j == i; j = r.Intn(n) {
		}
		e[i], e[j] = big.NewInt(2), new(big.Int).Sub(f.P, one)
		out = append(out, Bad{"sum-one-non-bit", e})
		e = zero()
		half := new(big.Int).Rsh(new(big.Int).Add(f.P, one), 1)
		e[i], e[j] = half, new(big.Int).Set(half)
		out = append(out, Bad{"sum-one-non-bit", e})
	}
	for _, x := range []*big.Int{big.NewInt(2), new(big.Int).Sub(f.P, one)} {
		e := zero()
		e[r.Intn(n)] = x
		out = append(out, Bad{"non-bit", e})
	}
	return filter(ValidHistogram, f, out)
}

func BadMHCV(r *lib.Rng, length, maxWeight uint, base []bool) []Bad {
	f := F128
	n := int(length)
	nb := bits.Len64(uint64(maxWeight))
	off := SumOffset(uint64(maxWeight))
	mod2 := new(big.Int).Lsh(one, uint(nb))
	enc := func(v []bool, reported *big.Int) []*big.Int {
		e := make([]*big.Int, n)
		for i := range e {
			e[i] = big.NewInt(b2i(v[i]))
		}
		return append(e, BitsLE(reported, nb)...)
	}
	weight := func(v []bool) int64 {
		w := int64(0)
		for _, b := range v {
			w += b2i(b)
		}
		return w
	}
	var out []Bad
	w0 := weight(base)
	// too heavy: maxWeight+1 and length entries set
	if maxWeight < length {
		for _, w := range []int{int(maxWeight) + 1, n} {
			v := make([]bool, n)
			perm := r.Intn(n)
			for k := 0; k < w; k++ {
				v[(perm+k)%n] = true
			}
			rep := new(big.Int).Add(off, big.NewInt(int64(w)))
			rep.Mod(rep, mod2)
			out = append(out, Bad{"weight-above-max", enc(v, rep)})
			out = append(out, Bad{"weight-above-max", enc(v, new(big.Int).Sub(mod2, one))})
			if nb >= 1 && w == int(maxWeight)+1 {
				// offset + weight = 2^bits written with a top entry of 2:
				// the weight relation holds, the entry is not a bit
				e := enc(v, new(big.Int))
				e[n+nb-1] = big.NewInt(2)
				out = append(out, Bad{"weight-above-max-non-bit", e})
			}
		}
	}
	// valid vector, reported weight of another one
	if nb >= 1 {
		rep := new(big.Int).Add(off, big.NewInt(w0))
		rep.Add(rep, one)
		rep.Mod(rep, mod2)
		out = append(out, Bad{"weight-mismatch", enc(base, rep)})
	}
	// two set entries merged into a single 2: weight relation holds
	if w0 >= 2 {
		e := enc(base, new(big.Int).Add(off, big.NewInt(w0)))
		first := -1
		for i := 0; i < n; i++ {
			if base[i] {
				if first < 0 {
					first = i
				} else {
					e[first] = big.NewInt(2)
					e[i] = new(big.Int)
					break
				}
			}
		}
		out = append(out, Bad{"non-bit-weight-preserving", e})
	}
	{
		e := enc(base, new(big.Int).Add(off, big.NewInt(w0)))
		e[r.Intn(len(e))] = pickNonBit(r, f)
		out = append(out, Bad{"non-bit", e})
	}
	return filter(func(e []*big.Int) bool { return ValidMHCV(length, maxWeight, e) }, f, out)
}
