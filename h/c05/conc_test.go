//go:build verif

package c05

import (
	"sync"
	"sync/atomic"
	"testing"

	"github.com/cloudflare/circl/internal/zzverif/lib"
	"github.com/cloudflare/circl/sign/ed25519"
	"github.com/cloudflare/circl/sign/ed448"
)

// TestVerifConcurrent: signing and verification are functions of their
// inputs also when many goroutines sign and verify at the same time (both
// algorithms work from precomputed tables that every call shares).  A fixed
// set of triples - valid ones, and ones with one bit of the signature or of
// the message changed - is judged by circl sequentially (the sequential results are judged against the
// RFC 8032 reference by TestVerifSign / TestVerifVerify), then 16 goroutines verify (and re-sign) them in tight
// loops for a fixed number of rounds; every verdict and every signature must
// equal the sequential one.  The differential monitors run their cases in
// parallel too, but with a big-integer reference evaluation between two
// calls; this one keeps all cores inside circl.
func TestVerifConcurrent(t *testing.T) {
	const mon = "TestVerifConcurrent"
	lib.Mandatory("concurrent:verifications", "concurrent:signatures")
	type triple struct {
		curve    string
		pk, msg  []byte
		sig      []byte
		want     bool
		sk25     ed25519.PrivateKey
		sk448    ed448.PrivateKey
		signWant []byte
	}
	var ts []triple
	r := lib.NewRng("c05/concurrent", 0)
	for i := 0; i < 24; i++ {
		seed := r.Bytes(32)
		msg := r.Bytes(1 + r.Intn(100))
		sk := ed25519.NewKeyFromSeed(seed)
		pk := sk.Public().(ed25519.PublicKey)
		sig := ed25519.Sign(sk, msg)
		ts = append(ts, triple{curve: "ed25519", pk: lib.Clone(pk), msg: msg, sig: sig, want: true, sk25: sk, signWant: sig})
		ts = append(ts, triple{curve: "ed25519", pk: lib.Clone(pk), msg: msg, sig: lib.FlipBit(sig, r.Intn(8*len(sig))), want: false})
		ts = append(ts, triple{curve: "ed25519", pk: lib.Clone(pk), msg: lib.FlipBit(msg, r.Intn(8*len(msg))), sig: sig, want: false})
	}
	for i := 0; i < 12; i++ {
		seed := r.Bytes(57)
		msg := r.Bytes(1 + r.Intn(100))
		sk := ed448.NewKeyFromSeed(seed)
		pk := sk.Public().(ed448.PublicKey)
		sig := ed448.Sign(sk, msg, "")
		ts = append(ts, triple{curve: "ed448", pk: lib.Clone(pk), msg: msg, sig: sig, want: true, sk448: sk, signWant: sig})
		ts = append(ts, triple{curve: "ed448", pk: lib.Clone(pk), msg: msg, sig: lib.FlipBit(sig, r.Intn(8*len(sig)-8)), want: false})
	}
	// sequential verdicts
	verify := func(c *triple) bool {
		if c.curve == "ed25519" {
			return ed25519.Verify(ed25519.PublicKey(c.pk), c.msg, c.sig)
		}
		return ed448.Verify(ed448.PublicKey(c.pk), c.msg, c.sig, "")
	}
	for i := range ts {
		if got := verify(&ts[i]); got != ts[i].want {
			// a bit flip that still verifies is TestVerifVerify's business
			ts[i].want = got
		}
	}
	rounds := lib.Scale(2000, 20000)
	const workers = 16
	var wg sync.WaitGroup
	var nver, nsig int64
	var reported int32
	for w := 0; w < workers; w++ {
		w := w
		wg.Add(1)
		go func() {
			defer wg.Done()
			for k := 0; k < rounds; k++ {
				c := &ts[(k*7+w*3)%len(ts)]
				got := verify(c)
				atomic.AddInt64(&nver, 1)
				if got != c.want && atomic.CompareAndSwapInt32(&reported, 0, 1) {
					lib.Violation("C05:concurrent-verdict-differs:"+c.curve+".Verify", mon,
						lib.D("pk", c.pk, "msg", c.msg, "sig", c.sig, "sequential_verdict", c.want, "concurrent_verdict", got, "goroutines", workers))
				}
				if c.signWant != nil && k%4 == 0 {
					var s []byte
					if c.curve == "ed25519" {
						s = ed25519.Sign(c.sk25, c.msg)
					} else {
						s = ed448.Sign(c.sk448, c.msg, "")
					}
					atomic.AddInt64(&nsig, 1)
					if !lib.Eq(s, c.signWant) && atomic.CompareAndSwapInt32(&reported, 0, 1) {
						lib.Violation("C05:concurrent-signature-differs:"+c.curve+".Sign", mon,
							lib.D("msg", c.msg, "sequential", c.signWant, "concurrent", s, "goroutines", workers))
					}
				}
			}
		}()
	}
	wg.Wait()
	lib.CountN("concurrent:verifications", int(nver))
	lib.CountN("concurrent:signatures", int(nsig))
	lib.CaseS("concurrent", "ed25519+ed448")
}

// TestVerifReturnedSlices: Public() and Seed() of Ed25519 / Ed448 private
// keys return byte slices; they are the caller's.  Overwriting them must not
// change the private key: the public key it reports and the (deterministic,
// RFC 8032) signatures it produces stay what they were.
func TestVerifReturnedSlices(t *testing.T) {
	const mon = "TestVerifReturnedSlices"
	lib.Mandatory("returned-slices:histories")
	for i := 0; i < lib.Scale(8, 200); i++ {
		r := lib.NewRng("c05/returned-slices", i)
		msg := r.Bytes(1 + r.Intn(60))
		{
			sk := ed25519.NewKeyFromSeed(r.Bytes(32))
			sig0 := ed25519.Sign(sk, msg)
			pub := sk.Public().(ed25519.PublicKey)
			keep := lib.Clone(pub)
			for j := range pub {
				pub[j] = 0xEE
			}
			sd := sk.Seed()
			for j := range sd {
				sd[j] = 0x11
			}
			sig1 := ed25519.Sign(sk, msg)
			now := sk.Public().(ed25519.PublicKey)
			lib.Count("returned-slices:histories")
			if !lib.Eq(sig0, sig1) || !lib.Eq(now, keep) || !ed25519.Verify(ed25519.PublicKey(keep), msg, sig1) {
				lib.Violation("C05:signature-changes-after-writing-to-returned-slice:ed25519", mon,
					lib.D("msg", msg, "sig_before", sig0, "sig_after", sig1, "public_before", keep, "public_after", []byte(now)))
			}
		}
		// GenerateKey hands out the public key next to the private one: it is
		// the caller's too
		{
			pub, sk, err := ed25519.GenerateKey(lib.NewRng("c05/returned-slices/gen25519", i))
			if err == nil {
				keep := lib.Clone(pub)
				sig0 := ed25519.Sign(sk, msg)
				for j := range pub {
					pub[j] = 0xEE
				}
				sig1 := ed25519.Sign(sk, msg)
				now := sk.Public().(ed25519.PublicKey)
				lib.Count("returned-slices:histories")
				if !lib.Eq(sig0, sig1) || !lib.Eq(now, keep) || !ed25519.Verify(ed25519.PublicKey(keep), msg, sig1) {
					lib.Violation("C05:signature-changes-after-writing-to-returned-slice:ed25519.GenerateKey", mon,
						lib.D("msg", msg, "sig_before", sig0, "sig_after", sig1, "public_before", keep, "public_after", []byte(now)))
				}
			}
		}
		{
			pub, sk, err := ed448.GenerateKey(lib.NewRng("c05/returned-slices/gen448", i))
			if err == nil {
				keep := lib.Clone(pub)
				sig0 := ed448.Sign(sk, msg, "")
				for j := range pub {
					pub[j] = 0xEE
				}
				sig1 := ed448.Sign(sk, msg, "")
				now := sk.Public().(ed448.PublicKey)
				lib.Count("returned-slices:histories")
				if !lib.Eq(sig0, sig1) || !lib.Eq(now, keep) || !ed448.Verify(ed448.PublicKey(keep), msg, sig1, "") {
					lib.Violation("C05:signature-changes-after-writing-to-returned-slice:ed448.GenerateKey", mon,
						lib.D("msg", msg, "sig_before", sig0, "sig_after", sig1, "public_before", keep, "public_after", []byte(now)))
				}
			}
		}
		{
			sk := ed448.NewKeyFromSeed(r.Bytes(57))
			ctx := string(r.Bytes(r.Intn(4)))
			sig0 := ed448.Sign(sk, msg, ctx)
			ph0 := ed448.SignPh(sk, msg, ctx)
			pub := sk.Public().(ed448.PublicKey)
			keep := lib.Clone(pub)
			for j := range pub {
				pub[j] = 0xEE
			}
			sd := sk.Seed()
			for j := range sd {
				sd[j] = 0x11
			}
			sig1 := ed448.Sign(sk, msg, ctx)
			ph1 := ed448.SignPh(sk, msg, ctx)
			now := sk.Public().(ed448.PublicKey)
			lib.Count("returned-slices:histories")
			if !lib.Eq(sig0, sig1) || !lib.Eq(ph0, ph1) || !lib.Eq(now, keep) || !ed448.Verify(ed448.PublicKey(keep), msg, sig1, ctx) {
				lib.Violation("C05:signature-changes-after-writing-to-returned-slice:ed448", mon,
					lib.D("msg", msg, "ctx", []byte(ctx), "sig_before", sig0, "sig_after", sig1, "public_before", keep, "public_after", []byte(now)))
			}
		}
	}
}
