//go:build verif

// C11(b) — race monitor: N goroutines perform read-only operations on SHARED
// keys, schemes, suites and group elements.  Oracle 1 is the Go race detector
// (this file is meant for the -race build; reports are collected by the
// orchestrator).  Oracle 2: every concurrent call must return what the same
// call returns when run alone.  Each iteration starts from freshly
// unmarshalled key objects, so every lazily filled cache is raced on its first
// use every time.
package c11

import (
	"crypto"
	"crypto/rsa"
	"crypto/x509"
	"encoding/pem"
	"fmt"
	"os"
	"sync"
	"sync/atomic"
	"testing"

	"github.com/cloudflare/circl/dh/csidh"
	"github.com/cloudflare/circl/group"
	"github.com/cloudflare/circl/hpke"
	"github.com/cloudflare/circl/internal/zzverif/lib"
	"github.com/cloudflare/circl/kem"
	kemschemes "github.com/cloudflare/circl/kem/schemes"
	"github.com/cloudflare/circl/oprf"
	"github.com/cloudflare/circl/sign"
	"github.com/cloudflare/circl/sign/bls"
	signschemes "github.com/cloudflare/circl/sign/schemes"
	tssrsa "github.com/cloudflare/circl/tss/rsa"
	"github.com/cloudflare/circl/zk/dleq"
)

const nG = 16

// stress runs f(g) for g in 0..nG-1 concurrently, all released at once, and
// records the arrival order and the in-flight high-water mark.
func stress(target string, f func(g int) []byte) [][]byte {
	var wg sync.WaitGroup
	start := make(chan struct{})
	out := make([][]byte, nG)
	var ticket, inflight, high int64
	order := make([]byte, nG)
	for g := 0; g < nG; g++ {
		wg.Add(1)
		go func(g int) {
			defer wg.Done()
			<-start
			t := atomic.AddInt64(&ticket, 1) - 1
			order[t] = byte(g)
			n := atomic.AddInt64(&inflight, 1)
			for {
				h := atomic.LoadInt64(&high)
				if n <= h || atomic.CompareAndSwapInt64(&high, h, n) {
					break
				}
			}
			out[g] = f(g)
			atomic.AddInt64(&inflight, -1)
		}(g)
	}
	close(start)
	wg.Wait()
	lib.Distinct([]byte(target), order)
	lib.Count("race:iterations:" + target)
	lib.CountN("evaluations", nG)
	if high >= 2 {
		lib.Count("race:iterations-with-overlap")
	}
	return out
}

func check(target string, want []byte, got [][]byte, detail map[string]any) {
	for g, o := range got {
		if !lib.Eq(o, want) {
			detail["goroutine"] = g
			detail["got"] = lib.Hex(o)
			detail["want_sequential"] = lib.Hex(want)
			lib.Violation("C11:concurrent-result-differs:"+target, "TestVerifRace", detail)
			return
		}
	}
}

func cat(parts ...[]byte) []byte {
	var o []byte
	for _, p := range parts {
		o = append(o, byte(len(p)), byte(len(p)>>8))
		o = append(o, p...)
	}
	return o
}

func iters(q int) int { return lib.Scale(q, q*50) }

func TestVerifRaceKEM(t *testing.T) {
	lib.Mandatory("race:iterations-with-overlap")
	ss := kemschemes.All()
	ss = append(ss, hpke.KEM_X25519_KYBER768_DRAFT00.Scheme(), hpke.KEM_XWING.Scheme())
	for _, s := range ss {
		n := s.Name()
		it := iters(12)
		if n == "FrodoKEM-640-SHAKE" {
			it = iters(3)
		}
		for i := 0; i < it; i++ {
			r := lib.NewRng("c11/race/kem/"+n, i)
			pk0, sk0 := s.DeriveKeyPair(r.Bytes(s.SeedSize()))
			pkb, _ := pk0.MarshalBinary()
			skb, _ := sk0.MarshalBinary()
			es := r.Bytes(s.EncapsulationSeedSize())
			ct, ss0, err := s.EncapsulateDeterministically(pk0, es)
			if err != nil {
				t.Fatal(err)
			}
			want := cat(pkb, ct, ss0, ss0)
			// fresh objects: caches empty
			pk, err1 := s.UnmarshalBinaryPublicKey(pkb)
			sk, err2 := s.UnmarshalBinaryPrivateKey(skb)
			if err1 != nil || err2 != nil {
				t.Fatal(err1, err2)
			}
			got := stress("kem:"+n, func(g int) []byte {
				p, _ := sk.Public().MarshalBinary()
				c, k, _ := s.EncapsulateDeterministically(pk, es)
				d, _ := s.Decapsulate(sk, ct)
				_ = sk.Equal(sk0)
				_ = pk.Equal(pk0)
				return cat(p, c, k, d)
			})
			check("kem:"+n, want, got, lib.D("scheme", n, "iteration", i))
		}
	}
}

func TestVerifRaceSign(t *testing.T) {
	for _, s := range signschemes.All() {
		n := s.Name()
		for i := 0; i < iters(10); i++ {
			r := lib.NewRng("c11/race/sign/"+n, i)
			pk0, sk0 := s.DeriveKey(r.Bytes(s.SeedSize()))
			pkb, _ := pk0.MarshalBinary()
			skb, _ := sk0.MarshalBinary()
			msg := r.Bytes(33)
			var opts *sign.SignatureOpts
			sig0 := s.Sign(sk0, msg, opts)
			want := cat(pkb, sig0, []byte{1})
			pk, err1 := s.UnmarshalBinaryPublicKey(pkb)
			sk, err2 := s.UnmarshalBinaryPrivateKey(skb)
			if err1 != nil || err2 != nil {
				t.Fatal(err1, err2)
			}
			got := stress("sign:"+n, func(g int) []byte {
				p, _ := sk.Public().(sign.PublicKey).MarshalBinary()
				sg := s.Sign(sk, msg, opts)
				ok := s.Verify(pk, msg, sig0, opts)
				_ = sk.Equal(sk0)
				return cat(p, sg, b2(ok))
			})
			check("sign:"+n, want, got, lib.D("scheme", n, "iteration", i))
		}
	}
	raceBLS[bls.G1](t, "G1")
	raceBLS[bls.G2](t, "G2")
}

func raceBLS[K bls.KeyGroup](t *testing.T, n string) {
	for i := 0; i < iters(10); i++ {
		r := lib.NewRng("c11/race/bls/"+n, i)
		sk0, err := bls.KeyGen[K](r.Bytes(32), nil, nil)
		if err != nil {
			t.Fatal(err)
		}
		skb, _ := sk0.MarshalBinary()
		pkb, _ := sk0.PublicKey().MarshalBinary()
		msg := r.Bytes(20)
		sig0 := bls.Sign(sk0, msg)
		want := cat(pkb, sig0, []byte{1})
		sk := new(bls.PrivateKey[K])
		if err := sk.UnmarshalBinary(skb); err != nil {
			t.Fatal(err)
		}
		pk := new(bls.PublicKey[K])
		if err := pk.UnmarshalBinary(pkb); err != nil {
			t.Fatal(err)
		}
		got := stress("bls:"+n, func(g int) []byte {
			p, _ := sk.PublicKey().MarshalBinary()
			sg := bls.Sign(sk, msg)
			ok := bls.Verify(pk, msg, sig0)
			_ = pk.Validate()
			return cat(p, sg, b2(ok))
		})
		check("bls:"+n, want, got, lib.D("group", n, "iteration", i))
	}
}

func TestVerifRaceHPKE(t *testing.T) {
	kems := []hpke.KEM{hpke.KEM_P256_HKDF_SHA256, hpke.KEM_P384_HKDF_SHA384, hpke.KEM_P521_HKDF_SHA512,
		hpke.KEM_X25519_HKDF_SHA256, hpke.KEM_X448_HKDF_SHA512, hpke.KEM_X25519_KYBER768_DRAFT00, hpke.KEM_XWING}
	for ki, k := range kems {
		suite := hpke.NewSuite(k, hpke.KDF_HKDF_SHA256, hpke.AEAD_AES128GCM)
		sch := k.Scheme()
		n := sch.Name()
		for i := 0; i < iters(8); i++ {
			r := lib.NewRng("c11/race/hpke/"+n, i)
			pk0, sk0 := sch.DeriveKeyPair(r.Bytes(sch.SeedSize()))
			pkS0, skS0 := sch.DeriveKeyPair(r.Bytes(sch.SeedSize()))
			pkb, _ := pk0.MarshalBinary()
			skb, _ := sk0.MarshalBinary()
			pkSb, _ := pkS0.MarshalBinary()
			skSb, _ := skS0.MarshalBinary()
			pk, _ := sch.UnmarshalBinaryPublicKey(pkb)
			sk, _ := sch.UnmarshalBinaryPrivateKey(skb)
			pkS, _ := sch.UnmarshalBinaryPublicKey(pkSb)
			skS, _ := sch.UnmarshalBinaryPrivateKey(skSb)
			info := []byte("info")
			rseed := int(r.U32())
			auth := ki < 5
			one := func(pk kem.PublicKey, sk kem.PrivateKey, pkS kem.PublicKey, skS kem.PrivateKey) []byte {
				snd, err := suite.NewSender(pk, info)
				if err != nil {
					return []byte("ERR " + err.Error())
				}
				var enc []byte
				var sealer hpke.Sealer
				if auth {
					enc, sealer, err = snd.SetupAuth(lib.NewRng("c11/hpke-rnd", rseed), skS)
				} else {
					enc, sealer, err = snd.Setup(lib.NewRng("c11/hpke-rnd", rseed))
				}
				if err != nil {
					return []byte("ERR " + err.Error())
				}
				ct, _ := sealer.Seal([]byte("pt"), []byte("aad"))
				rcv, err := suite.NewReceiver(sk, info)
				if err != nil {
					return []byte("ERR " + err.Error())
				}
				var op hpke.Opener
				if auth {
					op, err = rcv.SetupAuth(enc, pkS)
				} else {
					op, err = rcv.Setup(enc)
				}
				if err != nil {
					return []byte("ERR " + err.Error())
				}
				pt, err := op.Open(ct, []byte("aad"))
				if err != nil {
					return []byte("ERR " + err.Error())
				}
				return cat(enc, ct, pt, op.Export([]byte("x"), 16))
			}
			want := one(pk0, sk0, pkS0, skS0)
			got := stress("hpke:"+n, func(g int) []byte { return one(pk, sk, pkS, skS) })
			check("hpke:"+n, want, got, lib.D("kem", n, "iteration", i))
		}
	}
}

func TestVerifRaceOPRF(t *testing.T) {
	for _, su := range []oprf.Suite{oprf.SuiteRistretto255, oprf.SuiteP256, oprf.SuiteP384, oprf.SuiteP521} {
		n := su.Identifier()
		for i := 0; i < iters(6); i++ {
			r := lib.NewRng("c11/race/oprf/"+n, i)
			sk0, err := oprf.DeriveKey(su, oprf.VerifiableMode, r.Bytes(32), []byte("i"))
			if err != nil {
				t.Fatal(err)
			}
			skb, _ := sk0.MarshalBinary()
			pkb, _ := sk0.Public().MarshalBinary()
			input := r.Bytes(10)
			out0, _ := oprf.NewVerifiableServer(su, sk0).FullEvaluate(input)
			pout0, _ := oprf.NewPartialObliviousServer(su, sk0).FullEvaluate(input, []byte("info"))
			want := cat(pkb, out0, pout0, []byte{1})
			sk := new(oprf.PrivateKey)
			if err := sk.UnmarshalBinary(su, skb); err != nil {
				t.Fatal(err)
			}
			got := stress("oprf:"+n, func(g int) []byte {
				srv := oprf.NewVerifiableServer(su, sk)
				p, _ := srv.PublicKey().MarshalBinary()
				o, _ := srv.FullEvaluate(input)
				po, _ := oprf.NewPartialObliviousServer(su, sk).FullEvaluate(input, []byte("info"))
				// a full protocol run against the shared key
				cl := oprf.NewVerifiableClient(su, srv.PublicKey())
				fd, req, err := cl.Blind([][]byte{input})
				ok := false
				if err == nil {
					if ev, err := srv.Evaluate(req); err == nil {
						if outs, err := cl.Finalize(fd, ev); err == nil && lib.Eq(outs[0], o) {
							ok = true
						}
					}
				}
				return cat(p, o, po, b2(ok))
			})
			check("oprf:"+n, want, got, lib.D("suite", n, "iteration", i))
		}
	}
}

func loadRSAKey(name string) *rsa.PrivateKey {
	b, err := os.ReadFile(lib.Root() + "/testdata/rsa/" + name + ".pem")
	if err != nil {
		panic(err)
	}
	blk, _ := pem.Decode(b)
	if k, err := x509.ParsePKCS1PrivateKey(blk.Bytes); err == nil {
		return k
	}
	k, err := x509.ParsePKCS8PrivateKey(blk.Bytes)
	if err != nil {
		panic(err)
	}
	return k.(*rsa.PrivateKey)
}

func TestVerifRaceTSS(t *testing.T) {
	key := loadRSAKey("plain-1024")
	pub := &key.PublicKey
	for _, cache := range []bool{false, true} {
		shares, err := tssrsa.Deal(lib.NewRng("c11/race/tss", 0), 3, 2, key, cache)
		if err != nil {
			t.Fatal(err)
		}
		digest, _ := tssrsa.PadHash(&tssrsa.PKCS1v15Padder{}, crypto.SHA256, pub, []byte("msg"))
		for i := 0; i < iters(8); i++ {
			for _, parallel := range []bool{false, true} {
				target := fmt.Sprintf("tss-rsa:cache=%v", cache)
				b, _ := shares[i%3].MarshalBinary()
				var ks0, ks tssrsa.KeyShare
				if err := ks0.UnmarshalBinary(b); err != nil {
					t.Fatal(err)
				}
				if err := ks.UnmarshalBinary(b); err != nil {
					t.Fatal(err)
				}
				s0, err := ks0.Sign(lib.NewRng("c11/tss-rnd", i), pub, digest, parallel)
				if err != nil {
					t.Fatal(err)
				}
				want, _ := s0.MarshalBinary()
				got := stress(target, func(g int) []byte {
					s, err := ks.Sign(lib.NewRng("c11/tss-rnd", i*100+g), pub, digest, parallel)
					if err != nil {
						return []byte("ERR " + err.Error())
					}
					o, _ := s.MarshalBinary()
					return o
				})
				check(target, want, got, lib.D("cache", cache, "parallel", parallel, "iteration", i))
			}
		}
	}
}

func TestVerifRaceGroup(t *testing.T) {
	for _, g := range []group.Group{group.P256, group.P384, group.P521, group.Ristretto255} {
		n := fmt.Sprint(g)
		for i := 0; i < iters(10); i++ {
			r := lib.NewRng("c11/race/group/"+n, i)
			k := g.RandomScalar(r)
			kb, _ := k.MarshalBinary()
			k = g.NewScalar()
			_ = k.UnmarshalBinary(kb)
			gen := g.Generator()
			A := g.NewElement().MulGen(k)
			ab, _ := A.MarshalBinary()
			B := g.HashToElement(r.Bytes(8), []byte("dst"))
			kB := g.NewElement().Mul(B, k)
			params := dleq.Params{G: g, H: crypto.SHA256, DST: []byte("d")}
			rnd := g.HashToScalar(r.Bytes(8), []byte("rnd"))
			pr0, err := dleq.Prover{Params: params}.ProveWithRandomness(k, g.Generator(), A, B, kB, rnd)
			if err != nil {
				t.Fatal(err)
			}
			prb, _ := pr0.MarshalBinary()
			gb, _ := g.Generator().MarshalBinary()
			want := cat(gb, ab, prb, []byte{1, 1})
			got := stress("group:"+n, func(gi int) []byte {
				// shared: gen (a Generator() value), A, B, kB, k, rnd, params
				x, _ := gen.MarshalBinary()
				_, _ = gen.MarshalBinaryCompress()
				y, _ := g.NewElement().Mul(gen, k).MarshalBinary()
				pr, err := dleq.Prover{Params: params}.ProveWithRandomness(k, gen, A, B, kB, rnd)
				var p []byte
				if err == nil {
					p, _ = pr.MarshalBinary()
				}
				ok := dleq.Verifier{Params: params}.Verify(gen, A, B, kB, pr0)
				eq := A.IsEqual(g.NewElement().MulGen(k))
				return cat(x, y, p, append(b2(ok), b2(eq)...))
			})
			check("group:"+n, want, got, lib.D("group", n, "iteration", i))
		}
	}
}

func TestVerifRaceCSIDH(t *testing.T) {
	for i := 0; i < lib.Scale(1, 20); i++ {
		r := lib.NewRng("c11/race/csidh", i)
		var a, b csidh.PrivateKey
		_ = csidh.GeneratePrivateKey(&a, r)
		_ = csidh.GeneratePrivateKey(&b, r)
		var pb csidh.PublicKey
		csidh.GeneratePublicKey(&pb, &b, r)
		var want [64]byte
		csidh.DeriveSecret(&want, &pb, &a, lib.NewRng("c11/csidh-rnd", 0))
		got := stress("csidh", func(g int) []byte {
			var out [64]byte
			csidh.DeriveSecret(&out, &pb, &a, lib.NewRng("c11/csidh-rnd", g))
			return out[:]
		})
		check("csidh", want[:], got, lib.D("iteration", i))
	}
}
