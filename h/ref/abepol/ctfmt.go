//go:build verif

package abepol

import (
	"encoding/binary"
	"errors"

	"golang.org/x/crypto/blake2b"
)

// Independent model of the tkn20 ciphertext container (Boneh-Katz transform),
// written from the description in bk.go's comments and the v1.3.8 release
// note: only the framing, the identity and the MAC - no pairing arithmetic.
//
//	v1.3.8:  "v1.3.8" | u16 len | id | u32 len | macData | u16 len | tag
//	         macData = u32 len | C1 | u32 len | env
//	v1.3.7:            u16 len | id | u16 len | macData | u16 len | tag
//	         macData = u16 len | C1 | u16 len | env
//	id     = BLAKE2b-256("id computation hash"  | seed)
//	macKey = BLAKE2b-256("key computation hash" | seed)
//	tag    = BLAKE2b-256 keyed with macKey over macData
//	env    = (seed | msg) xor keystream,  len(seed) = 72
//	C1     = u16 len | policy | u16 len | c1 | ...group elements...

const (
	Version  = "v1.3.8"
	SeedSize = 72
)

// Region is a named byte range of a ciphertext.
type Region struct {
	Name     string
	Off, Len int
}

// Layout is the parsed framing.
type Layout struct {
	New     bool // v1.3.8 framing
	ID      []byte
	MacData []byte
	C1      []byte
	Env     []byte
	Tag     []byte
	Regions []Region
}

var errFmt = errors.New("abepol: ciphertext framing")

// Parse splits an honest ciphertext of either version.
func Parse(ct []byte) (*Layout, error) {
	l := &Layout{}
	off := 0
	w := 2 // width of the wide prefixes
	if len(ct) >= len(Version) && string(ct[:len(Version)]) == Version {
		l.New = true
		off = len(Version)
		w = 4
		l.Regions = append(l.Regions, Region{"version", 0, off})
	}
	rd := func(width int, name string) ([]byte, int, error) {
		if off+width > len(ct) {
			return nil, 0, errFmt
		}
		var n int
		if width == 2 {
			n = int(binary.LittleEndian.Uint16(ct[off:]))
		} else {
			n = int(binary.LittleEndian.Uint32(ct[off:]))
		}
		l.Regions = append(l.Regions, Region{name + "-len", off, width})
		off += width
		if n < 0 || off+n > len(ct) {
			return nil, 0, errFmt
		}
		start := off
		off += n
		return ct[start : start+n], start, nil
	}
	var err error
	var st int
	if l.ID, st, err = rd(2, "id"); err != nil {
		return nil, err
	}
	l.Regions = append(l.Regions, Region{"id", st, len(l.ID)})
	if l.MacData, st, err = rd(w, "macdata"); err != nil {
		return nil, err
	}
	macStart := st
	if l.Tag, st, err = rd(2, "tag"); err != nil {
		return nil, err
	}
	l.Regions = append(l.Regions, Region{"tag", st, len(l.Tag)})
	if off != len(ct) {
		return nil, errFmt
	}
	// inside macData
	off = macStart
	end := macStart + len(l.MacData)
	ctSave := ct
	ct = ct[:end]
	if l.C1, st, err = rd(w, "c1"); err != nil {
		return nil, err
	}
	c1Start := st
	if l.Env, st, err = rd(w, "env"); err != nil {
		return nil, err
	}
	if off != end {
		return nil, errFmt
	}
	ct = ctSave
	if len(l.Env) < SeedSize {
		return nil, errFmt
	}
	l.Regions = append(l.Regions, Region{"env-seed", st, SeedSize})
	if len(l.Env) > SeedSize {
		l.Regions = append(l.Regions, Region{"env-msg", st + SeedSize, len(l.Env) - SeedSize})
	}
	// inside C1: policy then group elements
	if len(l.C1) < 2 {
		return nil, errFmt
	}
	pl := int(binary.LittleEndian.Uint16(l.C1))
	if 2+pl > len(l.C1) {
		return nil, errFmt
	}
	l.Regions = append(l.Regions,
		Region{"policy-len", c1Start, 2},
		Region{"policy", c1Start + 2, pl},
		Region{"c1-points", c1Start + 2 + pl, len(l.C1) - 2 - pl})
	return l, nil
}

// RegionOf returns the region name a byte offset belongs to.
func (l *Layout) RegionOf(byteOff int) string {
	for _, r := range l.Regions {
		if byteOff >= r.Off && byteOff < r.Off+r.Len {
			return r.Name
		}
	}
	return "?"
}

func sum256(prefix string, seed []byte) []byte {
	h, _ := blake2b.New256(nil)
	h.Write([]byte(prefix))
	h.Write(seed)
	return h.Sum(nil)
}

// ExpandSeed returns (id, macKey) of a seed.
func ExpandSeed(seed []byte) (id, macKey []byte) {
	return sum256("id computation hash", seed), sum256("key computation hash", seed)
}

// Mac is the tag over macData.
func Mac(macKey, macData []byte) []byte {
	h, err := blake2b.New256(macKey)
	if err != nil {
		panic(err)
	}
	h.Write(macData)
	return h.Sum(nil)
}

func put(dst []byte, width int, b []byte) []byte {
	if width == 2 {
		dst = append(dst, 0, 0)
		binary.LittleEndian.PutUint16(dst[len(dst)-2:], uint16(len(b)))
	} else {
		dst = append(dst, 0, 0, 0, 0)
		binary.LittleEndian.PutUint32(dst[len(dst)-4:], uint32(len(b)))
	}
	return append(dst, b...)
}

// Assemble builds a ciphertext in the requested framing from its parts,
// computing the tag from the seed the encryptor drew.
func Assemble(newFmt bool, seed, c1, env []byte) ([]byte, error) {
	id, macKey := ExpandSeed(seed)
	w := 4
	if !newFmt {
		w = 2
		if len(c1) > 0xFFFF || len(env) > 0xFFFF || 4+len(c1)+len(env) > 0xFFFF {
			return nil, errors.New("abepol: too long for the v1.3.7 framing")
		}
	}
	macData := put(nil, w, c1)
	macData = put(macData, w, env)
	tag := Mac(macKey, macData)
	var out []byte
	if newFmt {
		out = append(out, Version...)
	}
	out = put(out, 2, id)
	out = put(out, w, macData)
	out = put(out, 2, tag)
	return out, nil
}

// CheckSeed reports whether the ciphertext's id and tag are the ones the
// model derives from the seed (i.e. the model and the encryptor agree).
func (l *Layout) CheckSeed(seed []byte) bool {
	id, macKey := ExpandSeed(seed)
	return string(id) == string(l.ID) && string(Mac(macKey, l.MacData)) == string(l.Tag)
}
