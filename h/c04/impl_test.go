//go:build verif

package c04

import (
	"io"

	"github.com/cloudflare/circl/internal/zzverif/ref/mldsa"
	"github.com/cloudflare/circl/sign"
	"github.com/cloudflare/circl/sign/dilithium/mode2"
	"github.com/cloudflare/circl/sign/dilithium/mode3"
	"github.com/cloudflare/circl/sign/dilithium/mode5"
	"github.com/cloudflare/circl/sign/mldsa/mldsa44"
	"github.com/cloudflare/circl/sign/mldsa/mldsa65"
	"github.com/cloudflare/circl/sign/mldsa/mldsa87"
	"github.com/cloudflare/circl/sign/schemes"
)

// impl adapts the package-level API of one circl package (not the generic sign.Scheme,
// which is exercised separately) to opaque key handles.
type impl struct {
	p        *mldsa.Params
	newKey   func(seed []byte) (pk, sk any)
	generate func(r io.Reader) (pk, sk any, err error)
	packPK   func(pk any) []byte
	packSK   func(sk any) []byte
	unpackPK func(b []byte) (any, error)
	unpackSK func(b []byte) (any, error)
	public   func(sk any) any
	sign     func(sk any, msg, ctx []byte, randomized bool) ([]byte, error)
	verify   func(pk any, msg, ctx, sig []byte) bool
	scheme   sign.Scheme
}

func seed32(seed []byte) *[32]byte {
	var s [32]byte
	copy(s[:], seed)
	return &s
}

var impls = []*impl{
	{
		p: mldsa.MLDSA44,
		newKey: func(seed []byte) (any, any) {
			pk, sk := mldsa44.NewKeyFromSeed(seed32(seed))
			return pk, sk
		},
		generate: func(r io.Reader) (any, any, error) {
			pk, sk, err := mldsa44.GenerateKey(r)
			return pk, sk, err
		},
		packPK: func(pk any) []byte { return pk.(*mldsa44.PublicKey).Bytes() },
		packSK: func(sk any) []byte { return sk.(*mldsa44.PrivateKey).Bytes() },
		unpackPK: func(b []byte) (any, error) {
			var pk mldsa44.PublicKey
			return &pk, pk.UnmarshalBinary(b)
		},
		unpackSK: func(b []byte) (any, error) {
			var sk mldsa44.PrivateKey
			return &sk, sk.UnmarshalBinary(b)
		},
		public: func(sk any) any { return sk.(*mldsa44.PrivateKey).Public() },
		sign: func(sk any, msg, ctx []byte, randomized bool) ([]byte, error) {
			sig := dirty(mldsa44.SignatureSize + extraFor(msg))
			err := mldsa44.SignTo(sk.(*mldsa44.PrivateKey), msg, ctx, randomized, sig)
			return sig[:mldsa44.SignatureSize], err
		},
		verify: func(pk any, msg, ctx, sig []byte) bool {
			return mldsa44.Verify(pk.(*mldsa44.PublicKey), msg, ctx, sig)
		},
	},
	{
		p: mldsa.MLDSA65,
		newKey: func(seed []byte) (any, any) {
			pk, sk := mldsa65.NewKeyFromSeed(seed32(seed))
			return pk, sk
		},
		generate: func(r io.Reader) (any, any, error) {
			pk, sk, err := mldsa65.GenerateKey(r)
			return pk, sk, err
		},
		packPK: func(pk any) []byte { return pk.(*mldsa65.PublicKey).Bytes() },
		packSK: func(sk any) []byte { return sk.(*mldsa65.PrivateKey).Bytes() },
		unpackPK: func(b []byte) (any, error) {
			var pk mldsa65.PublicKey
			return &pk, pk.UnmarshalBinary(b)
		},
		unpackSK: func(b []byte) (any, error) {
			var sk mldsa65.PrivateKey
			return &sk, sk.UnmarshalBinary(b)
		},
		public: func(sk any) any { return sk.(*mldsa65.PrivateKey).Public() },
		sign: func(sk any, msg, ctx []byte, randomized bool) ([]byte, error) {
			sig := dirty(mldsa65.SignatureSize + extraFor(msg))
			err := mldsa65.SignTo(sk.(*mldsa65.PrivateKey), msg, ctx, randomized, sig)
			return sig[:mldsa65.SignatureSize], err
		},
		verify: func(pk any, msg, ctx, sig []byte) bool {
			return mldsa65.Verify(pk.(*mldsa65.PublicKey), msg, ctx, sig)
		},
	},
	{
		p: mldsa.MLDSA87,
		newKey: func(seed []byte) (any, any) {
			pk, sk := mldsa87.NewKeyFromSeed(seed32(seed))
			return pk, sk
		},
		generate: func(r io.Reader) (any, any, error) {
			pk, sk, err := mldsa87.GenerateKey(r)
			return pk, sk, err
		},
		packPK: func(pk any) []byte { return pk.(*mldsa87.PublicKey).Bytes() },
		packSK: func(sk any) []byte { return sk.(*mldsa87.PrivateKey).Bytes() },
		unpackPK: func(b []byte) (any, error) {
			var pk mldsa87.PublicKey
			return &pk, pk.UnmarshalBinary(b)
		},
		unpackSK: func(b []byte) (any, error) {
			var sk mldsa87.PrivateKey
			return &sk, sk.UnmarshalBinary(b)
		},
		public: func(sk any) any { return sk.(*mldsa87.PrivateKey).Public() },
		sign: func(sk any, msg, ctx []byte, randomized bool) ([]byte, error) {
			sig := dirty(mldsa87.SignatureSize + extraFor(msg))
			err := mldsa87.SignTo(sk.(*mldsa87.PrivateKey), msg, ctx, randomized, sig)
			return sig[:mldsa87.SignatureSize], err
		},
		verify: func(pk any, msg, ctx, sig []byte) bool {
			return mldsa87.Verify(pk.(*mldsa87.PublicKey), msg, ctx, sig)
		},
	},
	{
		p: mldsa.Dilithium2,
		newKey: func(seed []byte) (any, any) {
			pk, sk := mode2.NewKeyFromSeed(seed32(seed))
			return pk, sk
		},
		generate: func(r io.Reader) (any, any, error) {
			pk, sk, err := mode2.GenerateKey(r)
			return pk, sk, err
		},
		packPK: func(pk any) []byte { return pk.(*mode2.PublicKey).Bytes() },
		packSK: func(sk any) []byte { return sk.(*mode2.PrivateKey).Bytes() },
		unpackPK: func(b []byte) (any, error) {
			var pk mode2.PublicKey
			return &pk, pk.UnmarshalBinary(b)
		},
		unpackSK: func(b []byte) (any, error) {
			var sk mode2.PrivateKey
			return &sk, sk.UnmarshalBinary(b)
		},
		public: func(sk any) any { return sk.(*mode2.PrivateKey).Public() },
		sign: func(sk any, msg, ctx []byte, randomized bool) ([]byte, error) {
			sig := dirty(mode2.SignatureSize + extraFor(msg))
			mode2.SignTo(sk.(*mode2.PrivateKey), msg, sig)
			return sig[:mode2.SignatureSize], nil
		},
		verify: func(pk any, msg, ctx, sig []byte) bool {
			return mode2.Verify(pk.(*mode2.PublicKey), msg, sig)
		},
	},
	{
		p: mldsa.Dilithium3,
		newKey: func(seed []byte) (any, any) {
			pk, sk := mode3.NewKeyFromSeed(seed32(seed))
			return pk, sk
		},
		generate: func(r io.Reader) (any, any, error) {
			pk, sk, err := mode3.GenerateKey(r)
			return pk, sk, err
		},
		packPK: func(pk any) []byte { return pk.(*mode3.PublicKey).Bytes() },
		packSK: func(sk any) []byte { return sk.(*mode3.PrivateKey).Bytes() },
		unpackPK: func(b []byte) (any, error) {
			var pk mode3.PublicKey
			return &pk, pk.UnmarshalBinary(b)
		},
		unpackSK: func(b []byte) (any, error) {
			var sk mode3.PrivateKey
			return &sk, sk.UnmarshalBinary(b)
		},
		public: func(sk any) any { return sk.(*mode3.PrivateKey).Public() },
		sign: func(sk any, msg, ctx []byte, randomized bool) ([]byte, error) {
			sig := dirty(mode3.SignatureSize + extraFor(msg))
			mode3.SignTo(sk.(*mode3.PrivateKey), msg, sig)
			return sig[:mode3.SignatureSize], nil
		},
		verify: func(pk any, msg, ctx, sig []byte) bool {
			return mode3.Verify(pk.(*mode3.PublicKey), msg, sig)
		},
	},
	{
		p: mldsa.Dilithium5,
		newKey: func(seed []byte) (any, any) {
			pk, sk := mode5.NewKeyFromSeed(seed32(seed))
			return pk, sk
		},
		generate: func(r io.Reader) (any, any, error) {
			pk, sk, err := mode5.GenerateKey(r)
			return pk, sk, err
		},
		packPK: func(pk any) []byte { return pk.(*mode5.PublicKey).Bytes() },
		packSK: func(sk any) []byte { return sk.(*mode5.PrivateKey).Bytes() },
		unpackPK: func(b []byte) (any, error) {
			var pk mode5.PublicKey
			return &pk, pk.UnmarshalBinary(b)
		},
		unpackSK: func(b []byte) (any, error) {
			var sk mode5.PrivateKey
			return &sk, sk.UnmarshalBinary(b)
		},
		public: func(sk any) any { return sk.(*mode5.PrivateKey).Public() },
		sign: func(sk any, msg, ctx []byte, randomized bool) ([]byte, error) {
			sig := dirty(mode5.SignatureSize + extraFor(msg))
			mode5.SignTo(sk.(*mode5.PrivateKey), msg, sig)
			return sig[:mode5.SignatureSize], nil
		},
		verify: func(pk any, msg, ctx, sig []byte) bool {
			return mode5.Verify(pk.(*mode5.PublicKey), msg, sig)
		},
	},
}

func init() {
	for _, im := range impls {
		im.scheme = schemes.ByName(im.p.Name)
	}
}

// extraFor: SignTo takes any buffer of AT LEAST SignatureSize octets and
// writes the signature to its first SignatureSize octets; two messages in
// three get a longer buffer (1, 7 or 64 octets more).
func extraFor(msg []byte) int {
	return []int{0, 1, 7, 64, 0, 3}[(len(msg)+int(sum8(msg)))%6]
}

func sum8(b []byte) (s byte) {
	for _, x := range b {
		s += x
	}
	return
}

// dirty returns a buffer that is not zero: a signature must be written in
// full whatever the caller's buffer held (hint padding, unused high bits).
func dirty(n int) []byte {
	b := make([]byte, n)
	for i := range b {
		b[i] = 0xA5 ^ byte(i*7)
	}
	return b
}
