//go:build verif

// C13 white-box monitor of the Ed25519 group arithmetic (pointR1/R2/R3
// formulas, oddMultiples, fixedMult, doubleMult) against the big-integer
// affine reference of ref/c13ref.
package ed25519

import (
	"math/big"
	"testing"

	"github.com/cloudflare/circl/internal/zzverif/lib"
	"github.com/cloudflare/circl/internal/zzverif/ref/c13ref"
	fp "github.com/cloudflare/circl/math/fp25519"
)

const vc13Mon = "TestVerifC13Ed25519Group"

type vc13Pt struct {
	K     *big.Int
	P     c13ref.EPoint
	Class string
}

func vc13Elt(v *big.Int) fp.Elt {
	var e fp.Elt
	copy(e[:], c13ref.LE(v, fp.Size))
	return e
}

// vc13Point builds the extended point (lx : ly : l : lx*y) for a non-zero l
// (l = 1 gives the affine representative).
func vc13Point(c *c13ref.ECurve, p c13ref.EPoint, l *big.Int) *pointR1 {
	f := c.F
	le := f.New(l, nil)
	return &pointR1{
		x:  vc13Elt(f.Mul(p.X, le).A),
		y:  vc13Elt(f.Mul(p.Y, le).A),
		z:  vc13Elt(le.A),
		ta: vc13Elt(f.Mul(p.X, le).A),
		tb: vc13Elt(p.Y.A),
	}
}

// vc13Read normalises the raw coordinates of P with reference arithmetic
// and reports whether T = XY/Z holds and Z != 0.
func vc13Read(c *c13ref.ECurve, P *pointR1) (c13ref.EPoint, bool) {
	f := c.F
	X, Y, Z := f.New(c13ref.FromLE(P.x[:]), nil), f.New(c13ref.FromLE(P.y[:]), nil), f.New(c13ref.FromLE(P.z[:]), nil)
	Ta, Tb := f.New(c13ref.FromLE(P.ta[:]), nil), f.New(c13ref.FromLE(P.tb[:]), nil)
	zi, ok := f.Inv(Z)
	if !ok {
		return c.O(), false
	}
	consistent := f.Eq(f.Mul(f.Mul(Ta, Tb), Z), f.Mul(X, Y))
	return c13ref.EPoint{X: f.Mul(X, zi), Y: f.Mul(Y, zi)}, consistent
}

func vc13Str(p c13ref.EPoint) string { return "(" + p.X.A.Text(16) + ", " + p.Y.A.Text(16) + ")" }

func vc13Hex(k *big.Int) string {
	if k == nil {
		return "unknown"
	}
	return k.Text(16)
}

func vc13Check(c *c13ref.ECurve, op, class string, want c13ref.EPoint, got *pointR1, detail map[string]any) bool {
	detail["case-class"], class = class, c13ref.Coarse(class)
	g, consistent := vc13Read(c, got)
	if !c.Eq(g, want) {
		detail["want"], detail["got"] = vc13Str(want), vc13Str(g)
		lib.Violation("C13:wrong-result:ed25519."+op+":"+class, vc13Mon, detail)
		return false
	}
	if !consistent {
		lib.Violation("C13:inconsistent-coordinates:ed25519."+op, vc13Mon, detail)
		return false
	}
	return true
}

// vc13Guard runs f under lib.Try and turns a panic into a violation.
func vc13Guard(entry string, in []byte, f func()) bool {
	if pn := lib.Try(entry, in, f); pn != nil {
		lib.Violation("C13:panic:"+entry, vc13Mon, lib.D("input", in, "panic", pn.Value, "frame", pn.TopFrame()))
		return false
	}
	return true
}

func vc13Pool(c *c13ref.ECurve, stream string, nRandom, nLift int) []vc13Pt {
	r := lib.NewRng(stream, 0)
	ks := c13ref.PoolK(r, c.N, nRandom)
	out := make([]vc13Pt, len(ks)+nLift)
	lib.Par(len(out), func(i int) {
		if i < len(ks) {
			cl := "kG"
			if ks[i].Sign() == 0 {
				cl = "O"
			}
			out[i] = vc13Pt{ks[i], c.MulG(ks[i]), cl}
			return
		}
		rr := lib.NewRng(stream+"/lift", i)
		for {
			y := c.F.New(new(big.Int).SetBytes(rr.Bytes(40)), nil)
			p, ok := c.LiftY(y)
			if !ok {
				continue
			}
			if rr.Bool() {
				p = c.Neg(p)
			}
			p = c.Mul(big.NewInt(c.H), p)
			if c.IsO(p) {
				continue
			}
			out[i] = vc13Pt{nil, p, "lifted"}
			return
		}
	})
	return out
}

func vc13Related(c *c13ref.ECurve, pool []vc13Pt, r *lib.Rng) (p, q vc13Pt, rel string) {
	p = pool[r.Intn(len(pool))]
	o := vc13Pt{big.NewInt(0), c.O(), "O"}
	nk := func(k *big.Int, m int64) *big.Int {
		if k == nil {
			return nil
		}
		return new(big.Int).Mod(new(big.Int).Mul(k, big.NewInt(m)), c.N)
	}
	switch r.Intn(10) {
	case 0:
		return p, p, "Q=P"
	case 1:
		return p, vc13Pt{nk(p.K, -1), c.Neg(p.P), p.Class}, "Q=-P"
	case 2:
		return p, o, "Q=O"
	case 3:
		return o, p, "P=O"
	case 4:
		return o, o, "O+O"
	case 5:
		return p, vc13Pt{nk(p.K, 2), c.Double(p.P), p.Class}, "Q=2P"
	case 6:
		return p, vc13Pt{nk(p.K, -2), c.Neg(c.Double(p.P)), p.Class}, "Q=-2P"
	default:
		return p, pool[r.Intn(len(pool))], "independent"
	}
}

func vc13Lambda(r *lib.Rng, p *big.Int) *big.Int {
	switch r.Intn(4) {
	case 0:
		return big.NewInt(1)
	case 1:
		return new(big.Int).Sub(p, big.NewInt(int64(1+r.Intn(3))))
	default:
		l := new(big.Int).SetBytes(r.Bytes(40))
		l.Mod(l, p)
		if l.Sign() == 0 {
			l.SetInt64(2)
		}
		return l
	}
}

func TestVerifC13Ed25519Group(t *testing.T) {
	lib.Mandatory("ed25519.add", "ed25519.add:Q=P", "ed25519.add:Q=-P", "ed25519.add:Q=O", "ed25519.add:P=O", "ed25519.mixAdd", "ed25519.double", "ed25519.double:O",
		"ed25519.neg", "ed25519.oddMultiples", "ed25519.fixedMult", "ed25519.fixedMult:zero", "ed25519.doubleMult", "ed25519.dm:mG=nQ", "ed25519.dm:mG=-nQ", "ed25519.dm:Q=G,m=n",
		"ed25519.dm:Q=O", "ed25519.dm:m=0", "ed25519.dm:n=0", "ed25519.dm:unreduced", "ed25519.projective-input")
	c := c13ref.Ed25519()
	N := c.N
	// self-check of the constants this file depends on
	if !c.IsOnCurve(c.G) || !c.IsO(c.Mul(N, c.G)) || c13ref.FromLE(order[:]).Cmp(N) != 0 {
		t.Fatalf("reference Ed25519 parameters inconsistent")
	}
	if c13ref.FromLE(paramD[:]).Cmp(c.D.A) != 0 {
		lib.Violation("C13:wrong-constant:ed25519.paramD", vc13Mon, lib.D("got", paramD[:]))
	}
	pool := vc13Pool(c, "c13/ed25519/pool", lib.Scale(24, 300), lib.Scale(12, 100))
	n := lib.Scale(400, 40000)

	// ---- formulas: add (R2), mixAdd (R3), double, neg, isEqual, oddMultiples
	lib.Par(n, func(i int) {
		r := lib.NewRng("c13/ed25519/add", i)
		p, q, rel := vc13Related(c, pool, r)
		lp, lq := vc13Lambda(r, c.F.P), vc13Lambda(r, c.F.P)
		if lp.Cmp(big.NewInt(1)) != 0 {
			lib.Count("ed25519.projective-input")
		}
		P, Q := vc13Point(c, p.P, lp), vc13Point(c, q.P, lq)
		det := func(kv ...any) map[string]any {
			d := lib.D(kv...)
			d["P"], d["Q"], d["rel"], d["lambdaP"], d["lambdaQ"] = vc13Str(p.P), vc13Str(q.P), rel, lp.Text(16), lq.Text(16)
			return d
		}
		want := c.MustAdd(p.P, q.P)
		// add with Q in R2 form
		var Q2 pointR2
		Q2.fromR1(Q)
		A := *P
		lib.Case([]byte("ed25519.add"), p.P.Bytes(), q.P.Bytes(), lp.Bytes(), lq.Bytes())
		lib.Count("ed25519.add")
		lib.Count("ed25519.add:" + rel)
		if pn := lib.Try("ed25519.pointR1.add", nil, func() { A.add(&Q2) }); pn != nil {
			lib.Violation("C13:panic:ed25519.add", vc13Mon, det("panic", pn.Value))
			return
		}
		if !vc13Check(c, "add", rel, want, &A, det()) {
			return
		}
		// mixAdd with Q affine in R3 form
		var Q3 pointR2
		Q3.fromR1(vc13Point(c, q.P, big.NewInt(1)))
		B := *P
		lib.Case([]byte("ed25519.mixAdd"), p.P.Bytes(), q.P.Bytes(), lp.Bytes())
		lib.Count("ed25519.mixAdd")
		B.mixAdd(&Q3.pointR3)
		if !vc13Check(c, "mixAdd", rel, want, &B, det()) {
			return
		}
		// negated R3 operand: P - Q
		N3 := Q3.pointR3
		N3.neg()
		B = *P
		B.mixAdd(&N3)
		if !vc13Check(c, "mixAdd", "negated-operand", c.MustAdd(p.P, c.Neg(q.P)), &B, det()) {
			return
		}
		C3 := Q3.pointR3
		C3.cneg(1)
		B = *P
		B.mixAdd(&C3)
		if !vc13Check(c, "mixAdd", "cneg-operand", c.MustAdd(p.P, c.Neg(q.P)), &B, det()) {
			return
		}
		if P.isEqual(Q) != c.Eq(p.P, q.P) {
			lib.Violation("C13:wrong-result:ed25519.isEqual", vc13Mon, det())
		}
		// double of the input and of the (projective) sum
		D := *P
		D.double()
		lib.Case([]byte("ed25519.double"), p.P.Bytes(), lp.Bytes())
		lib.Count("ed25519.double")
		if c.IsO(p.P) {
			lib.Count("ed25519.double:O")
		}
		if !vc13Check(c, "double", p.Class, c.Double(p.P), &D, det()) {
			return
		}
		D = A
		D.double()
		lib.Count("ed25519.double")
		if c.IsO(want) {
			lib.Count("ed25519.double:O")
		}
		if !vc13Check(c, "double", "chained", c.Double(want), &D, det()) {
			return
		}
		// neg
		M := *P
		M.neg()
		lib.Count("ed25519.neg")
		if !vc13Check(c, "neg", p.Class, c.Neg(p.P), &M, det()) {
			return
		}
		// oddMultiples: T[j] = (2j+1)P, read back by adding to the identity
		if i%4 == 0 {
			var T [8]pointR2
			W := *P
			W.oddMultiples(T[:])
			lib.Case([]byte("ed25519.oddMultiples"), p.P.Bytes(), lp.Bytes())
			lib.Count("ed25519.oddMultiples")
			for j := range T {
				var I pointR1
				I.SetIdentity()
				I.add(&T[j])
				if !vc13Check(c, "oddMultiples", "entry", c.Mul(big.NewInt(int64(2*j+1)), p.P), &I, det("index", j)) {
					return
				}
			}
		}
		if i == 0 {
			lib.Sample(vc13Mon, det("op", "add", "result", vc13Str(want)))
		}
	})

	// ---- fixedMult
	lib.Par(n, func(i int) {
		r := lib.NewRng("c13/ed25519/fixed", i)
		k, kclass := c13ref.GenScalar(r, N, 32)
		if i%2 == 0 {
			k.Mod(k, N) // the callers always pass a scalar reduced mod the order
		}
		if i == 1 {
			k.SetInt64(0)
		}
		kb := c13ref.LE(k, 32)
		lib.Case([]byte("ed25519.fixedMult"), kb)
		lib.Count("ed25519.fixedMult")
		lib.Count("ed25519.scalar:" + kclass)
		if k.Sign() == 0 {
			lib.Count("ed25519.fixedMult:zero")
		}
		cl := "reduced"
		if k.Cmp(N) >= 0 {
			cl = "k>=order"
			lib.Count("ed25519.fixedMult:k>=order")
		}
		var P pointR1
		if pn := lib.Try("ed25519.fixedMult", kb, func() { P.fixedMult(kb) }); pn != nil {
			lib.Violation("C13:panic:ed25519.fixedMult:"+cl, vc13Mon, lib.D("k", kb, "panic", pn.Value))
			return
		}
		vc13Check(c, "fixedMult", cl, c.MulG(k), &P, lib.D("k", kb, "kclass", kclass))
		if i == 0 {
			lib.Sample(vc13Mon, lib.D("op", "fixedMult", "k", kb))
		}
	})

	// ---- exhaustive ends of the scalar range of fixedMult, exhaustive small grid of doubleMult
	{
		sw := c13ref.SweepScalars(N, lib.Scale(300, 4000), lib.Scale(40, 600))
		lib.Mandatory("ed25519.sweep", "ed25519.dm:small-grid")
		lib.Par(len(sw), func(i int) {
			k := sw[i]
			kb := c13ref.LE(k, 32)
			cl := "reduced"
			if k.Cmp(N) >= 0 {
				cl = "k>=order"
			}
			lib.Case([]byte("ed25519.fixedMult"), kb)
			lib.Count("ed25519.sweep")
			var P pointR1
			if !vc13Guard("ed25519.fixedMult", kb, func() { P.fixedMult(kb) }) {
				return
			}
			vc13Check(c, "fixedMult", cl, c.MulG(k), &P, lib.D("k", kb))
		})
		grid := c13ref.SmallGrid(8)
		lib.Par(len(grid), func(i int) {
			g := grid[i]
			kq, mm, nn := big.NewInt(g[0]), big.NewInt(g[1]), big.NewInt(g[2])
			qp := c.MulG(kq)
			want := c.MustAdd(c.MulG(mm), c.Mul(nn, qp))
			mb, nb := c13ref.LE(mm, 32), c13ref.LE(nn, 32)
			lib.Case([]byte("ed25519.doubleMult"), qp.Bytes(), mb, nb)
			lib.Count("ed25519.doubleMult")
			lib.Count("ed25519.dm:small-grid")
			var P pointR1
			if !vc13Guard("ed25519.doubleMult", append(append([]byte{}, mb...), nb...), func() { P.doubleMult(vc13Point(c, qp, big.NewInt(1)), mb, nb) }) {
				return
			}
			vc13Check(c, "doubleMult", "related-Q", want, &P, lib.D("Q", vc13Str(qp), "dlogQ", kq.String(), "m", mb, "n", nb, "class", "small-grid"))
		})
	}

	// ---- doubleMult(Q, m, n) = mG + nQ
	G := vc13Pt{big.NewInt(1), c.G, "kG"}
	lib.Par(lib.Scale(400, 12000), func(i int) {
		r := lib.NewRng("c13/ed25519/dm", i)
		q := pool[r.Intn(len(pool))]
		maxB := 32
		if r.Intn(8) == 0 {
			maxB = 33 + r.Intn(32)
		}
		nn, _ := c13ref.GenScalar(r, N, maxB)
		mm, _ := c13ref.GenScalar(r, N, maxB)
		cl := "independent"
		mode := r.Intn(12)
		if q.K == nil && mode < 6 {
			mode = 6 + r.Intn(6)
		}
		modN := func(v *big.Int) *big.Int { return new(big.Int).Mod(v, N) }
		switch mode {
		case 0:
			q, mm, cl = G, nn, "Q=G,m=n"
		case 1:
			mm, cl = modN(new(big.Int).Mul(q.K, nn)), "mG=nQ"
		case 2:
			mm, cl = modN(new(big.Int).Neg(new(big.Int).Mul(q.K, nn))), "mG=-nQ"
		case 3:
			mm = modN(new(big.Int).Mul(q.K, nn))
			mm.Add(mm, new(big.Int).Mul(N, big.NewInt(int64(1+r.Intn(7)))))
			cl = "mG=nQ"
		case 4:
			mm = new(big.Int).Add(N, big.NewInt(int64(r.Intn(5)-2)))
			nn = new(big.Int).Add(N, big.NewInt(int64(r.Intn(5)-2)))
			cl = "unreduced"
		case 5:
			kq := big.NewInt(int64(1 + r.Intn(3)))
			q = vc13Pt{kq, c.MulG(kq), "kG"}
			mm = new(big.Int).Add(new(big.Int).Mul(modN(nn), kq), big.NewInt(int64(r.Intn(64))))
			cl = "mG~nQ"
		case 6:
			q, cl = vc13Pt{big.NewInt(0), c.O(), "O"}, "Q=O"
		case 7:
			mm, cl = big.NewInt(0), "m=0"
		case 8:
			nn, cl = big.NewInt(0), "n=0"
		case 9:
			nn = new(big.Int).Add(N, big.NewInt(int64(r.Intn(160)-40)))
			mm = big.NewInt(int64(r.Intn(3)))
			if r.Bool() {
				mm = big.NewInt(0)
			}
			cl = "n~N"
		}
		wm, wn := 32, 32
		if len(mm.Bytes()) > 32 {
			wm = len(mm.Bytes())
		}
		if len(nn.Bytes()) > 32 {
			wn = len(nn.Bytes())
		}
		mb, nb := c13ref.LE(mm, wm), c13ref.LE(nn, wn)
		lq := vc13Lambda(r, c.F.P)
		Q := vc13Point(c, q.P, lq)
		want := c.MustAdd(c.MulG(mm), c.Mul(nn, q.P))
		lib.Case([]byte("ed25519.doubleMult"), q.P.Bytes(), mb, nb)
		lib.Count("ed25519.doubleMult")
		lib.Count("ed25519.dm:" + cl)
		det := lib.D("Q", vc13Str(q.P), "dlogQ", vc13Hex(q.K), "m", mb, "n", nb, "class", cl, "lambdaQ", lq.Text(16))
		var P pointR1
		if pn := lib.Try("ed25519.doubleMult", append(append([]byte{}, mb...), nb...), func() { P.doubleMult(Q, mb, nb) }); pn != nil {
			det["panic"] = pn.Value
			lib.Violation("C13:panic:ed25519.doubleMult", vc13Mon, det)
			return
		}
		vc := "related-Q"
		if q.K == nil {
			vc = "unrelated-Q"
		}
		if !vc13Check(c, "doubleMult", vc, want, &P, det) {
			return
		}
		// the receiver is the point itself (Q.doubleMult(Q, m, n), the form the
		// package's own benchmark uses): same result
		if i%2 == 0 {
			Q2 := *vc13Point(c, q.P, lq)
			if pn := lib.Try("ed25519.doubleMult", append(append([]byte{}, mb...), nb...), func() { Q2.doubleMult(&Q2, mb, nb) }); pn == nil {
				lib.Count("ed25519.dm:receiver-is-Q")
				det["what"] = "receiver and point operand are the same object"
				vc13Check(c, "doubleMult", "receiver-is-Q", want, &Q2, det)
			}
		}
	})
}
