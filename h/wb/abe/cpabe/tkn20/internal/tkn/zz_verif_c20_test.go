//go:build verif

// C20 white-box monitor (compiled into package tkn): the linear secret
// sharing over the (Boneh-Katz augmented) monotone formula must reconstruct
// the secret on exactly the authorised sets of input wires, and the real
// decapsulation must not hand the session key to a key whose attributes do
// not satisfy the policy when the header is cut down to wires that key does
// match (what a holder of that key can do on its own with the ciphertext).
package tkn

import (
	"fmt"
	"sort"
	"testing"

	pairing "github.com/cloudflare/circl/ecc/bls12381"
	"github.com/cloudflare/circl/internal/zzverif/lib"
	"github.com/cloudflare/circl/internal/zzverif/ref/abepol"
)

const vc20Mon = "TestVerifC20Sharing"

var vc20Alpha = abepol.Alphabet{Labels: []string{"a", "b", "c"}, Values: []string{"x", "y", "z"}}

// vc20Strip removes the negations (the sharing works on the monotone circuit).
func vc20Strip(n *abepol.Node) *abepol.Node {
	switch n.K {
	case abepol.Leaf:
		return n
	case abepol.Not:
		return vc20Strip(n.L)
	}
	return &abepol.Node{K: n.K, L: vc20Strip(n.L), R: vc20Strip(n.R)}
}

// vc20Formula builds the gate list of a monotone AST with the documented
// numbering: leaves are wires 0..n in textual order, gate k (post order) sets
// wire n+1+k, the root sets wire 2n.  The gate order and the order of the two
// inputs are then shuffled.
func vc20Formula(node *abepol.Node, r *lib.Rng) Formula {
	n := abepol.NumLeaves(node) - 1
	var gates []Gate
	leaf := 0
	var build func(x *abepol.Node) int
	build = func(x *abepol.Node) int {
		if x.K == abepol.Leaf {
			leaf++
			return leaf - 1
		}
		a := build(x.L)
		b := build(x.R)
		class := Andgate
		if x.K == abepol.Or {
			class = Orgate
		}
		out := n + 1 + len(gates)
		if r.Bool() {
			a, b = b, a
		}
		gates = append(gates, Gate{Class: class, In0: a, In1: b, Out: out})
		return out
	}
	build(node)
	for i := len(gates) - 1; i > 0; i-- {
		j := r.Intn(i + 1)
		gates[i], gates[j] = gates[j], gates[i]
	}
	return Formula{Gates: gates}
}

// vc20Circuit evaluates a gate list on input wire values (own code).
func vc20Circuit(gates []Gate, in []bool) (bool, bool) {
	n := len(gates)
	if len(in) != n+1 {
		return false, false
	}
	by := map[int]Gate{}
	for _, g := range gates {
		by[g.Out] = g
	}
	ok := true
	steps := 0
	var ev func(w int) bool
	ev = func(w int) bool {
		steps++
		if steps > 100000 {
			ok = false
			return false
		}
		if w >= 0 && w <= n {
			return in[w]
		}
		g, found := by[w]
		if !found {
			ok = false
			return false
		}
		a, b := ev(g.In0), ev(g.In1)
		if g.Class == Andgate {
			return a && b
		}
		return a || b
	}
	res := ev(2 * n)
	return res, ok
}

func vc20Sharing(idx int) {
	r := lib.NewRng("c20wb/share", idx)
	max := 6
	if idx%5 == 0 {
		max = 8
	}
	node := vc20Strip(abepol.Gen(r, vc20Alpha, max))
	text := abepol.Canon(node)
	L := abepol.NumLeaves(node)
	f := vc20Formula(node, r)
	f2 := f.insertAnd() // what EncryptCCA shares over: (policy) and (one-time identity wire L)
	lib.CaseS("share", text, fmt.Sprint(f.Gates))
	lib.Count(fmt.Sprintf("share-leaves-%d", L))

	nw := L + 1 // wires of f2: 0..L-1 policy leaves, L the identity wire
	auth := func(T uint64) bool {
		return T>>uint(L)&1 == 1 && abepol.EvalLiterals(node, T&(1<<uint(L)-1))
	}
	in := make([]bool, nw)
	for T := uint64(0); T < 1<<uint(nw); T++ {
		for i := range in {
			in[i] = T>>uint(i)&1 == 1
		}
		got, ok := vc20Circuit(f2.Gates, in)
		if !ok || got != auth(T) {
			lib.Violation("C20:augmented-formula-is-not-policy-and-identity:tkn.Formula.insertAnd", vc20Mon,
				lib.D("policy", text, "gates", fmt.Sprint(f.Gates), "augmented", fmt.Sprint(f2.Gates), "wires", T))
			return
		}
	}

	k, _ := randomMatrixZp(r, 2, 1)
	var shares []*matrixZp
	var err error
	if p := lib.Try("tkn.Formula.share", []byte(text), func() { shares, err = f2.share(r, k) }); p != nil {
		lib.Violation("C20:panic:tkn.Formula.share", vc20Mon, lib.D("policy", text, "gates", fmt.Sprint(f2.Gates), "panic", p.Value))
		return
	}
	if err != nil || len(shares) != nw {
		lib.Violation("C20:share-error:tkn.Formula.share", vc20Mon, lib.D("policy", text, "gates", fmt.Sprint(f2.Gates), "err", err, "shares", len(shares)))
		return
	}
	zero := newMatrixZp(2, 1)
	var zeroShares []int
	for i, s := range shares {
		if s.Equal(zero) {
			zeroShares = append(zeroShares, i)
		}
	}
	reported := false
	for T := uint64(0); T < 1<<uint(nw); T++ {
		lib.Eval()
		sum := newMatrixZp(2, 1)
		var wires []int
		var matches []match
		for i := 0; i < nw; i++ {
			if T>>uint(i)&1 == 1 {
				sum.add(sum, shares[i])
				wires = append(wires, i)
				matches = append(matches, match{wire: i})
			}
		}
		a := auth(T)
		if !a {
			lib.Count("share-unauthorised-sets")
			if sum.Equal(k) && !reported {
				reported = true // one report per formula, keep checking the rest
				lib.Violation("C20:unauthorised-wire-set-reconstructs-the-secret:tkn.Formula.share", vc20Mon,
					lib.D("policy", "("+text+") and <identity wire "+fmt.Sprint(L)+">", "gates", fmt.Sprint(f2.Gates),
						"unauthorised_wires", fmt.Sprint(wires), "wires_with_all_zero_share", fmt.Sprint(zeroShares)))
			}
		}
		// the real satisfaction() must agree and pick wires whose shares add up to the secret
		fc := Formula{Gates: append([]Gate(nil), f2.Gates...)}
		sat, serr := fc.satisfaction(matches)
		if (serr == nil) != a {
			kk := "accepts-unsatisfied"
			if a {
				kk = "rejects-satisfied"
			}
			lib.Violation("C20:"+kk+":tkn.Formula.satisfaction", vc20Mon, lib.D("policy", text, "gates", fmt.Sprint(f2.Gates), "wires", fmt.Sprint(wires), "err", serr))
			return
		}
		if a {
			lib.Count("share-authorised-sets")
			s2 := newMatrixZp(2, 1)
			var chosen []int
			for _, m := range sat {
				if T>>uint(m.wire)&1 == 0 {
					lib.Violation("C20:satisfaction-uses-unavailable-wire:tkn.Formula.satisfaction", vc20Mon, lib.D("policy", text, "wires", fmt.Sprint(wires), "chosen", m.wire))
					return
				}
				s2.add(s2, shares[m.wire])
				chosen = append(chosen, m.wire)
			}
			if !s2.Equal(k) {
				lib.Violation("C20:authorised-wire-set-does-not-reconstruct:tkn.Formula.share", vc20Mon,
					lib.D("policy", text, "gates", fmt.Sprint(f2.Gates), "available", fmt.Sprint(wires), "chosen", fmt.Sprint(chosen)))
				return
			}
		}
	}
}

func TestVerifC20Sharing(t *testing.T) {
	lib.Mandatory("share-unauthorised-sets", "share-authorised-sets", "share-leaves-1", "share-leaves-6", "share-leaves-8")
	n := lib.Scale(1500, 40000)
	lib.Par(n, func(i int) { vc20Sharing(i) })
}

// ---------------------------------------------------------------- stripped headers

func vc20Wire(label, value string, positive bool) Wire {
	return Wire{Label: label, RawValue: value, Value: HashStringToScalar([]byte("attribute value hashing"), value), Positive: positive}
}

// vc20Cut builds the header a key holder can assemble from an honest header:
// only the wires in keep (indices into the augmented policy), joined by AND
// gates, with the matching c3 / c3neg entries and the c2 entries those wires
// were built with.  ok is false when two kept wires would need different c2
// entries at the same position.
func vc20Cut(h *ciphertextHeader, keep []int) (*ciphertextHeader, bool) {
	piOld := h.p.pi()
	np := &Policy{}
	for _, i := range keep {
		np.Inputs = append(np.Inputs, h.p.Inputs[i])
	}
	m := len(keep)
	for j := 0; j+1 < m; j++ {
		in0 := 0 // wire 0 for the first gate, else the previous gate's output
		if j > 0 {
			in0 = (m - 1) + j // n + j with n = m-1 gates: output of gate j-1
		}
		np.F.Gates = append(np.F.Gates, Gate{Class: Andgate, In0: in0, In1: j + 1, Out: (m - 1) + 1 + j})
	}
	piNew := np.pi()
	d := max(piNew) + 1
	c2 := make([]*matrixG2, d)
	for j, i := range keep {
		want := h.c2[piOld[i]]
		if c2[piNew[j]] != nil && c2[piNew[j]] != want {
			return nil, false
		}
		c2[piNew[j]] = want
	}
	for j := range c2 {
		if c2[j] == nil {
			return nil, false
		}
	}
	out := &ciphertextHeader{p: np, c1: h.c1, c2: c2}
	for _, i := range keep {
		out.c3 = append(out.c3, h.c3[i])
		out.c3neg = append(out.c3neg, h.c3neg[i])
	}
	return out, true
}

func TestVerifC20StrippedHeader(t *testing.T) {
	const smon = "TestVerifC20StrippedHeader"
	lib.Mandatory("cut-attempts-unauthorised-key", "cut-honest-authorised-ok", "cut-honest-unauthorised-refused")
	r0 := lib.NewRng("c20wb/cut-setup", 0)
	pp, sp, err := GenerateParams(r0)
	if err != nil {
		t.Fatalf("harness: %v", err)
	}
	type tc struct {
		policy []Wire
		gates  []Gate
		text   string
		attrs  map[string]string
	}
	and2 := []Gate{{Class: Andgate, In0: 0, In1: 1, Out: 2}}
	or2 := []Gate{{Class: Orgate, In0: 0, In1: 1, Out: 2}}
	cases := []tc{
		{[]Wire{vc20Wire("a", "x", true)}, nil, "a:x", map[string]string{"b": "y"}},
		{[]Wire{vc20Wire("a", "x", true)}, nil, "a:x", map[string]string{"a": "y"}},
		{[]Wire{vc20Wire("a", "x", true)}, nil, "a:x", map[string]string{}},
		{[]Wire{vc20Wire("a", "x", true)}, nil, "a:x", map[string]string{"a": "x"}},
		{[]Wire{vc20Wire("a", "x", false)}, nil, "not a:x", map[string]string{"a": "x"}},
		{[]Wire{vc20Wire("a", "x", true), vc20Wire("b", "y", true)}, and2, "a:x and b:y", map[string]string{"a": "x"}},
		{[]Wire{vc20Wire("a", "x", true), vc20Wire("b", "y", true)}, and2, "a:x and b:y", map[string]string{"b": "y", "c": "z"}},
		{[]Wire{vc20Wire("a", "x", true), vc20Wire("b", "y", false)}, and2, "a:x and not b:y", map[string]string{"b": "z"}},
		{[]Wire{vc20Wire("a", "x", true), vc20Wire("b", "y", true)}, and2, "a:x and b:y", map[string]string{"a": "x", "b": "y"}},
		{[]Wire{vc20Wire("a", "x", true), vc20Wire("a", "y", false)}, and2, "a:x and not a:y", map[string]string{"a": "z"}},
		{[]Wire{vc20Wire("a", "x", true), vc20Wire("b", "y", true)}, or2, "a:x or b:y", map[string]string{"c": "z"}},
		{[]Wire{vc20Wire("a", "x", true), vc20Wire("b", "y", true)}, or2, "a:x or b:y", map[string]string{"b": "y"}},
		{[]Wire{vc20Wire("a", "x", true), vc20Wire("b", "y", true), vc20Wire("c", "z", true)},
			[]Gate{{Class: Orgate, In0: 0, In1: 1, Out: 3}, {Class: Andgate, In0: 3, In1: 2, Out: 4}}, "(a:x or b:y) and c:z", map[string]string{"a": "x", "b": "y"}},
		{[]Wire{vc20Wire("a", "x", true), vc20Wire("b", "y", true), vc20Wire("c", "z", true)},
			[]Gate{{Class: Orgate, In0: 0, In1: 1, Out: 3}, {Class: Andgate, In0: 3, In1: 2, Out: 4}}, "(a:x or b:y) and c:z", map[string]string{"c": "z"}},
	}
	if !lib.Thorough() {
		cases = append(cases[:2], cases[3:9]...)
	}
	lib.Par(len(cases), func(ci int) {
		c := cases[ci]
		r := lib.NewRng("c20wb/cut", ci)
		pol := &Policy{Inputs: c.policy, F: Formula{Gates: append([]Gate(nil), c.gates...)}}
		attrs := Attributes{}
		var names []string
		for l := range c.attrs {
			names = append(names, l)
		}
		sort.Strings(names)
		for _, l := range names {
			attrs[l] = Attribute{Value: HashStringToScalar([]byte("attribute value hashing"), c.attrs[l])}
		}
		_, perr := pol.Satisfaction(&attrs)
		authorised := perr == nil
		id := &pairing.Scalar{}
		id.SetBytes(r.Bytes(32))
		enc := pol.transformBK(id)
		hdr, session, err := encapsulate(r, pp, enc)
		if err != nil {
			lib.Violation("C20:encrypt-error:tkn.encapsulate", smon, lib.D("policy", c.text, "err", err))
			return
		}
		key, err := DeriveAttributeKeysCCA(r, sp, &attrs)
		if err != nil {
			lib.Violation("C20:keygen-error:tkn.DeriveAttributeKeysCCA", smon, lib.D("err", err))
			return
		}
		// honest path first
		hcopy := *hdr
		hcopy.p = &Policy{Inputs: append([]Wire(nil), enc.Inputs...), F: Formula{Gates: append([]Gate(nil), enc.F.Gates...)}}
		got, derr := decapsulate(&hcopy, key)
		lib.CaseS("cut-honest", c.text, fmt.Sprint(c.attrs))
		if authorised {
			if derr != nil || !got.IsEqual(session) {
				lib.Violation("C20:rejects-satisfied:tkn.decapsulate", smon, lib.D("policy", c.text, "attrs", fmt.Sprint(c.attrs), "err", derr))
			} else {
				lib.Count("cut-honest-authorised-ok")
			}
			return
		}
		if derr == nil {
			lib.Violation("C20:accepts-unsatisfied:tkn.decapsulate", smon, lib.D("policy", c.text, "attrs", fmt.Sprint(c.attrs), "same_session_key", got.IsEqual(session)))
			return
		}
		lib.Count("cut-honest-unauthorised-refused")
		// every non-empty subset of the wires this key matches
		real := transformAttrsBK(&attrs)
		var matched []int
		for i, w := range enc.Inputs {
			at, ok := (*real)[w.Label]
			if !ok {
				continue
			}
			eq := at.wild || w.Value.IsEqual(at.Value) == 1
			ne := at.wild || w.Value.IsEqual(at.Value) == 0
			if (w.Positive && eq) || (!w.Positive && ne) {
				matched = append(matched, i)
			}
		}
		for sub := 1; sub < 1<<uint(len(matched)); sub++ {
			var keep []int
			for j, i := range matched {
				if sub>>uint(j)&1 == 1 {
					keep = append(keep, i)
				}
			}
			cut, ok := vc20Cut(hdr, keep)
			if !ok {
				lib.Count("cut-skipped-c2-conflict")
				continue
			}
			lib.CaseS("cut", c.text, fmt.Sprint(c.attrs), fmt.Sprint(keep))
			lib.Count("cut-attempts-unauthorised-key")
			var g *pairing.Gt
			var e error
			if p := lib.Try("tkn.decapsulate:cut-header", []byte(c.text), func() { g, e = decapsulate(cut, key) }); p != nil {
				lib.Count("cut-panic")
				continue
			}
			if e != nil {
				lib.Count("cut-refused")
				continue
			}
			if g.IsEqual(session) {
				lib.Violation("C20:unauthorised-key-recovers-session-key:tkn.decapsulate:header-cut-to-matched-wires", smon,
					lib.D("policy", c.text, "attrs", fmt.Sprint(c.attrs), "kept_wires_of_augmented_policy", fmt.Sprint(keep),
						"identity_wire", len(enc.Inputs)-1))
			} else {
				lib.Count("cut-wrong-session-key")
			}
		}
	})
}
