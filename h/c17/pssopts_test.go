//go:build verif

package c17

import (
	"crypto"
	"crypto/rsa"
	"fmt"
	"math/big"
	"sync"
	"sync/atomic"
	"testing"

	"github.com/cloudflare/circl/internal/zzverif/lib"
	"github.com/cloudflare/circl/internal/zzverif/ref/rsapss"
	tss "github.com/cloudflare/circl/tss/rsa"
)

// TestVerifTSSPSSOptions: the threshold signature is a standard RSASSA-PSS
// signature for EVERY admissible PSS option set the padder is given, not only
// for nil / Auto / EqualsHash: explicit salt lengths 0..emLen-hLen-2 on both
// sides of the hash size.  A (2,3) sharing signs with players {1,3}; the
// combined signature must be accepted by crypto/rsa.VerifyPSS under the same
// options, and under an explicit option naming the salt length that the
// padder was asked for.
// TestVerifTSSLargeKeysAndConcurrentPadding: (a) PKCS#1 v1.5 and PSS threshold
// signatures for moduli of 3072 and 4096 bits (the padding string of PKCS#1
// v1.5 is then longer than 256 octets) must verify under crypto/rsa; (b) eight
// goroutines pad, sign and combine at the same time with one set of key
// shares (hash objects, padders and randomness are per call): every signature
// must verify.
func TestVerifTSSLargeKeysAndConcurrentPadding(t *testing.T) {
	const mon = "TestVerifTSSLargeKeysAndConcurrentPadding"
	lib.Mandatory("tss-large:verified", "tss-concurrent-padding:verified")
	one := func(key *rsa.PrivateKey, shares []tss.KeyShare, pss bool, h crypto.Hash, tag string, idx int) error {
		pub := &key.PublicKey
		msg := lib.NewRng("c17/large/msg/"+tag, idx).Bytes(30 + idx%40)
		d := h.New()
		d.Write(msg)
		hashed := d.Sum(nil)
		var padder tss.Padder = &tss.PKCS1v15Padder{}
		if pss {
			padder = &tss.PSSPadder{Rand: lib.NewRng("c17/large/salt/"+tag, idx), Opts: &rsa.PSSOptions{SaltLength: rsa.PSSSaltLengthEqualsHash, Hash: h}}
		}
		em, err := tss.PadHash(padder, h, pub, msg)
		if err != nil {
			return fmt.Errorf("PadHash: %w", err)
		}
		var ss []tss.SignShare
		for _, i := range []int{0, 2} {
			s, err := shares[i].Sign(lib.NewRng("c17/large/blind/"+tag, idx*4+i), pub, em, false)
			if err != nil {
				return fmt.Errorf("Sign: %w", err)
			}
			ss = append(ss, s)
		}
		sig, err := tss.CombineSignShares(pub, ss, em)
		if err != nil {
			return fmt.Errorf("CombineSignShares: %w", err)
		}
		if pss {
			err = rsa.VerifyPSS(pub, h, hashed, sig, &rsa.PSSOptions{SaltLength: rsa.PSSSaltLengthEqualsHash, Hash: h})
		} else {
			err = rsa.VerifyPKCS1v15(pub, h, hashed, sig)
		}
		if err != nil {
			return fmt.Errorf("crypto/rsa rejects the threshold signature: %w", err)
		}
		return nil
	}
	for _, kn := range []string{"plain-3072", "plain-4096"} {
		key := loadKey(t, kn).k
		shares, err := tss.Deal(lib.NewRng("c17/large/deal/"+kn, 0), 3, 2, key, true)
		if err != nil {
			t.Fatal(err)
		}
		for i, c := range []struct {
			pss bool
			h   crypto.Hash
		}{{false, crypto.SHA256}, {false, crypto.SHA512}, {true, crypto.SHA256}} {
			lib.CaseS("tss-large", kn, fmt.Sprint(i))
			var err error
			if pn := lib.Try("tss/rsa:large-key", nil, func() { err = one(key, shares, c.pss, c.h, kn, i) }); pn != nil {
				err = fmt.Errorf("panic: %s", pn.Value)
			}
			if err != nil {
				lib.Violation("C17:combine-fails:tss-rsa:large-modulus", mon, lib.D("rsa_key", kn, "pss", c.pss, "hash", c.h.String(), "err", err.Error()))
				continue
			}
			lib.Count("tss-large:verified")
		}
	}
	key := loadKey(t, "plain-1024").k
	shares, err := tss.Deal(lib.NewRng("c17/conc-pad/deal", 0), 3, 2, key, true)
	if err != nil {
		t.Fatal(err)
	}
	const G = 8
	rounds := lib.Scale(60, 600)
	var wg sync.WaitGroup
	var reported int32
	start := make(chan struct{})
	for g := 0; g < G; g++ {
		wg.Add(1)
		go func(g int) {
			defer wg.Done()
			<-start
			for i := 0; i < rounds; i++ {
				var err error
				if pn := lib.Try("tss/rsa:concurrent-padding", nil, func() { err = one(key, shares, i%4 != 3, crypto.SHA256, "conc", g*10000+i) }); pn != nil {
					err = fmt.Errorf("panic: %s", pn.Value)
				}
				if err != nil {
					if atomic.AddInt32(&reported, 1) == 1 {
						lib.Violation("C17:combine-fails:tss-rsa:concurrent-signing-sessions", mon, lib.D("goroutines", G, "goroutine", g, "call", i, "err", err.Error()))
					}
					continue
				}
				lib.Count("tss-concurrent-padding:verified")
			}
		}(g)
	}
	close(start)
	wg.Wait()
	lib.CaseS("tss-concurrent-padding", "plain-1024")
	// padding alone, in tight loops (no modular exponentiation between two
	// paddings): every encoded message must be a valid EMSA-PSS encoding of
	// its own message
	lib.Mandatory("tss-concurrent-padding:encodings")
	pub := &key.PublicKey
	emBits := pub.N.BitLen() - 1
	tight := lib.Scale(3000, 30000)
	var wg2 sync.WaitGroup
	var rep2 int32
	start2 := make(chan struct{})
	for g := 0; g < G; g++ {
		wg2.Add(1)
		go func(g int) {
			defer wg2.Done()
			<-start2
			for i := 0; i < tight; i++ {
				msg := []byte(fmt.Sprintf("padding %d/%d", g, i))
				var em []byte
				var err error
				pn := lib.Try("tss/rsa:concurrent-padding-only", msg, func() {
					padder := &tss.PSSPadder{Rand: lib.NewRng("c17/pad-only", g*100000+i), Opts: &rsa.PSSOptions{SaltLength: rsa.PSSSaltLengthEqualsHash, Hash: crypto.SHA256}}
					em, err = tss.PadHash(padder, crypto.SHA256, pub, msg)
				})
				lib.Count("tss-concurrent-padding:encodings")
				d := crypto.SHA256.New()
				d.Write(msg)
				ok := pn == nil && err == nil && rsapss.VerifyEM(crypto.SHA256, d.Sum(nil), em[len(em)-(emBits+7)/8:], emBits, 32)
				if !ok && atomic.AddInt32(&rep2, 1) == 1 {
					lib.Violation("C17:combine-fails:tss-rsa:concurrent-signing-sessions", mon, lib.D("goroutines", G, "goroutine", g, "call", i, "stage", "PadHash (PSS) alone", "err", fmt.Sprint(err), "panicked", pn != nil, "em", em))
				}
			}
		}(g)
	}
	close(start2)
	wg2.Wait()
}

func TestVerifTSSPSSOptions(t *testing.T) {
	const mon = "TestVerifTSSPSSOptions"
	lib.Mandatory("tss-pss-options:verified")
	for _, kn := range []string{"plain-1024", "plain-2048"} {
		key := loadKey(t, kn).k
		pub := &key.PublicKey
		for _, h := range []crypto.Hash{crypto.SHA256, crypto.SHA384} {
			emLen := (pub.N.BitLen() - 1 + 7) / 8
			max := emLen - h.Size() - 2
			lens := []int{rsa.PSSSaltLengthAuto, rsa.PSSSaltLengthEqualsHash, 1, 20, h.Size() - 1, h.Size(), h.Size() + 1, h.Size() + 16, max - 1, max}
			shares, err := tss.Deal(lib.NewRng("c17/pssopts/deal/"+kn, 0), 3, 2, key, true)
			if err != nil {
				t.Fatal(err)
			}
			for li, sl := range lens {
				opts := &rsa.PSSOptions{SaltLength: sl, Hash: h}
				msg := lib.NewRng("c17/pssopts/msg", li).Bytes(40)
				d := h.New()
				d.Write(msg)
				hashed := d.Sum(nil)
				lib.CaseS("tss-pss-options", kn, h.String(), fmt.Sprint(sl))
				var sig []byte
				var perr error
				if pn := lib.Try("tss/rsa:pss-options", msg, func() {
					padder := &tss.PSSPadder{Rand: lib.NewRng("c17/pssopts/salt", li), Opts: opts}
					var em []byte
					if em, perr = tss.PadHash(padder, h, pub, msg); perr != nil {
						return
					}
					var ss []tss.SignShare
					for _, i := range []int{0, 2} {
						s, err := shares[i].Sign(lib.NewRng("c17/pssopts/blind", li*4+i), pub, em, false)
						if err != nil {
							perr = err
							return
						}
						ss = append(ss, s)
					}
					sig, perr = tss.CombineSignShares(pub, ss, em)
				}); pn != nil {
					perr = fmt.Errorf("panic: %s", pn.Value)
				}
				det := lib.D("rsa_key", kn, "hash", h.String(), "salt_length_option", sl, "msg", msg, "sig", sig)
				if perr != nil {
					det["err"] = perr.Error()
					lib.Violation("C17:combine-fails:tss-rsa:pss-options", mon, det)
					continue
				}
				want := sl
				switch sl {
				case rsa.PSSSaltLengthEqualsHash:
					want = h.Size()
				case rsa.PSSSaltLengthAuto:
					want = -2 // whatever the padder chose: only Auto verification
				}
				e1 := rsa.VerifyPSS(pub, h, hashed, sig, opts)
				var e2 error
				if want >= 0 {
					e2 = rsa.VerifyPSS(pub, h, hashed, sig, &rsa.PSSOptions{SaltLength: want, Hash: h})
				}
				if e1 != nil || e2 != nil {
					det["verify_same_options"] = fmt.Sprint(e1)
					det["verify_explicit_salt_length"] = fmt.Sprint(e2)
					lib.Violation("C17:combine-fails:tss-rsa:pss-options", mon, det)
					continue
				}
				lib.Count("tss-pss-options:verified")
			}
		}
	}
}

// TestVerifTSSPKCS1v15Hashes: the PKCS#1 v1.5 padder serves every digest
// algorithm crypto/rsa signs with - MD5 to SHA-512/256, RIPEMD-160, the
// TLS 1.0 MD5+SHA1 pair (whose DigestInfo prefix is legitimately empty) and
// "no hash" (crypto.Hash(0): the digest is signed as it is).  For each
// (key, hash, digest) that crypto/rsa.SignPKCS1v15 accepts, the encoded
// message the padder returns, raised to d, must be a signature
// crypto/rsa.VerifyPKCS1v15 accepts; and a (2,3) threshold signature under the
// same hash must verify as well.
func TestVerifTSSPKCS1v15Hashes(t *testing.T) {
	const mon = "TestVerifTSSPKCS1v15Hashes"
	lib.Mandatory("tss-hashes:padded", "tss-hashes:threshold-signed")
	hashes := []struct {
		h    crypto.Hash
		size int
		name string
	}{
		{crypto.MD5, 16, "MD5"}, {crypto.SHA1, 20, "SHA1"}, {crypto.SHA224, 28, "SHA224"}, {crypto.SHA256, 32, "SHA256"},
		{crypto.SHA384, 48, "SHA384"}, {crypto.SHA512, 64, "SHA512"}, {crypto.SHA512_224, 28, "SHA512_224"}, {crypto.SHA512_256, 32, "SHA512_256"},
		{crypto.MD5SHA1, 36, "MD5SHA1"}, {crypto.RIPEMD160, 20, "RIPEMD160"}, {crypto.Hash(0), 20, "none/20"}, {crypto.Hash(0), 64, "none/64"},
		{crypto.SHA3_256, 32, "SHA3_256"}, {crypto.SHA3_512, 64, "SHA3_512"},
	}
	for ki, kn := range []string{"plain-1024", "plain-2048", "plain-1027"} {
		key := loadKey(t, kn).k
		pub := &key.PublicKey
		r := lib.NewRng("c17/hashes/"+kn, 0)
		shares, err := tss.Deal(lib.NewRng("c17/hashes/deal/"+kn, 0), 3, 2, key, false)
		if err != nil {
			lib.Violation("C17:deal-error:tss-rsa", mon, lib.D("key", kn, "err", err))
			continue
		}
		for _, hs := range hashes {
			digest := r.Bytes(hs.size)
			refSig, refErr := rsa.SignPKCS1v15(nil, key, hs.h, digest)
			var em []byte
			var perr error
			pn := lib.Try("tss.PKCS1v15Padder.Pad", digest, func() { em, perr = (tss.PKCS1v15Padder{}).Pad(pub, hs.h, lib.Clone(digest)) })
			lib.CaseS("tss-hashes", kn, hs.name)
			if refErr != nil {
				lib.Count("tss-hashes:not-signed-by-crypto-rsa:" + hs.name)
				continue // crypto/rsa does not sign with it: nothing to compare with
			}
			lib.Count("tss-hashes:padded")
			d := lib.D("key", kn, "hash", hs.name, "digest", digest)
			switch {
			case pn != nil:
				d["panic"] = pn.Value
				lib.Violation("C17:panic:tss-rsa:PKCS1v15Padder.Pad", mon, d)
				continue
			case perr != nil:
				d["err"] = perr.Error()
				lib.Violation("C17:padder-refuses-hash-crypto-rsa-signs-with:tss-rsa:PKCS1v15Padder", mon, d)
				continue
			}
			sig := new(big.Int).Exp(new(big.Int).SetBytes(em), key.D, key.N).FillBytes(make([]byte, pub.Size()))
			if rsa.VerifyPKCS1v15(pub, hs.h, digest, sig) != nil || !lib.Eq(sig, refSig) {
				d["padded"], d["signature_from_padded"], d["crypto_rsa_signature"] = lib.Hex(em), lib.Hex(sig), lib.Hex(refSig)
				lib.Violation("C17:padding-not-verified-by-crypto-rsa:tss-rsa:PKCS1v15Padder", mon, d)
				continue
			}
			if ki > 1 && hs.size != 36 {
				continue
			}
			// players {1,3} of the (2,3) sharing sign the padded digest
			var ss []tss.SignShare
			ok := true
			for _, pi := range []int{0, 2} {
				s, err := shares[pi].Sign(lib.NewRng("c17/hashes/sign", pi), pub, em, false)
				if err != nil {
					ok = false
					d["err"] = err.Error()
					break
				}
				ss = append(ss, s)
			}
			var tsig []byte
			if ok {
				var cerr error
				if tsig, cerr = tss.CombineSignShares(pub, ss, em); cerr != nil {
					ok = false
					d["err"] = cerr.Error()
				}
			}
			lib.Count("tss-hashes:threshold-signed")
			if !ok || rsa.VerifyPKCS1v15(pub, hs.h, digest, tsig) != nil {
				lib.Violation("C17:combine-fails:tss-rsa:pkcs1v15:"+hs.name, mon, d)
			}
		}
	}
}
