//go:build verif

package c06

import (
	"runtime"
	"sync"
	"sync/atomic"
	"testing"

	"github.com/cloudflare/circl/hpke"
	"github.com/cloudflare/circl/internal/zzverif/lib"
	"github.com/cloudflare/circl/kem"
	"github.com/cloudflare/circl/kem/hybrid"
	"github.com/cloudflare/circl/kem/xwing"
)

// TestVerifKEMFirstUse: "two parties always derive the same secret" also when
// the receiving party is a server: a private key that was just read from its
// encoding is used for the first time by 8 goroutines released together
// (Public(), Decapsulate, and - DHKEM - AuthEncapsulate with the key as the
// sender's).  Every public key handed out must be X(sk, base) of RFC 7748 and
// every secret the one the sender derived; whatever a key computes lazily on
// first use must not be visible half-done.  Values only, decided against the
// sequential results (which TestVerifKEMFlag decides against RFC 7748).
func TestVerifKEMFirstUse(t *testing.T) {
	const mon = "TestVerifKEMFirstUse"
	lib.Mandatory("kem-first-use:rounds", "kem-first-use:rounds-with-overlap")
	type sub struct {
		s      kem.Scheme
		rounds int
	}
	subs := []sub{
		{hpke.KEM_X25519_HKDF_SHA256.Scheme(), lib.Scale(600, 6000)},
		{hpke.KEM_X448_HKDF_SHA512.Scheme(), lib.Scale(300, 3000)},
		{hybrid.Kyber768X25519(), lib.Scale(60, 600)},
		{hybrid.X25519MLKEM768(), lib.Scale(60, 600)},
		{hybrid.Kyber768X448(), lib.Scale(40, 400)},
		{xwing.Scheme(), lib.Scale(60, 600)},
		{hpke.KEM_XWING.Scheme(), lib.Scale(60, 600)},
	}
	const G = 8
	for _, sb := range subs {
		s := sb.s
		name := s.Name()
		r := lib.NewRng("c06/first-use/"+name, 0)
		pk, sk := s.DeriveKeyPair(r.Bytes(s.SeedSize()))
		encPk, _ := pk.MarshalBinary()
		encSk, _ := sk.MarshalBinary()
		pkR, skR := s.DeriveKeyPair(r.Bytes(s.SeedSize()))
		es := r.Bytes(s.EncapsulationSeedSize())
		ct, ss, err := s.EncapsulateDeterministically(pk, es)
		if err != nil {
			continue
		}
		as, isAuth := s.(kem.AuthScheme)
		var actWant, assWant []byte
		if isAuth {
			actWant, assWant, err = as.AuthEncapsulateDeterministically(pkR, sk, es)
			if err != nil {
				isAuth = false
			} else if g, e := as.AuthDecapsulate(skR, actWant, pk); e != nil || !lib.Eq(g, assWant) {
				lib.Violation("C06:parties-disagree:"+name+".AuthEncapsulate", mon, lib.D("err", e))
				isAuth = false
			}
		}
		lib.CaseS("kem-first-use", name)
		bad := false
		for it := 0; it < sb.rounds && !bad; it++ {
			// the buffer the key is read from is overwritten at once (a caller
			// wiping its copy of the key): the key object must not live in it
			skBuf := lib.Clone(encSk)
			skU, err := s.UnmarshalBinaryPrivateKey(skBuf)
			for i := range skBuf {
				skBuf[i] ^= 0xA5
			}
			if err != nil {
				lib.Violation("C06:own-key-refused:"+name, mon, lib.D("err", err))
				break
			}
			var pubs, secs, acts, asss [G][]byte
			var errs [G]error
			var wg sync.WaitGroup
			var ready, inflight, high int32
			start := make(chan struct{})
			for g := 0; g < G; g++ {
				wg.Add(1)
				go func(g int) {
					defer wg.Done()
					atomic.AddInt32(&ready, 1)
					<-start
					n := atomic.AddInt32(&inflight, 1)
					for {
						h := atomic.LoadInt32(&high)
						if n <= h || atomic.CompareAndSwapInt32(&high, h, n) {
							break
						}
					}
					if p := lib.Try("kem-first-use:"+name, encSk, func() {
						switch {
						case g%4 == 0:
							pubs[g], _ = skU.Public().MarshalBinary()
							secs[g], errs[g] = s.Decapsulate(skU, ct)
						case g%4 == 1 && isAuth:
							acts[g], asss[g], errs[g] = as.AuthEncapsulateDeterministically(pkR, skU, es)
							pubs[g], _ = skU.Public().MarshalBinary()
						case g%4 == 2:
							secs[g], errs[g] = s.Decapsulate(skU, ct)
							pubs[g], _ = skU.Public().MarshalBinary()
						default:
							pubs[g], _ = skU.Public().MarshalBinary()
						}
					}); p != nil {
						lib.Violation("C06:panic:concurrent-first-use:"+name, mon, lib.D("panic", p.Value, "frame", p.TopFrame()))
					}
					atomic.AddInt32(&inflight, -1)
				}(g)
			}
			for atomic.LoadInt32(&ready) < G {
				runtime.Gosched()
			}
			close(start)
			wg.Wait()
			lib.Count("kem-first-use:rounds")
			lib.CountN("evaluations", G)
			if high >= 2 {
				lib.Count("kem-first-use:rounds-with-overlap")
			}
			for g := 0; g < G; g++ {
				what := ""
				switch {
				case errs[g] != nil:
					what = "error: " + errs[g].Error()
				case pubs[g] != nil && !lib.Eq(pubs[g], encPk):
					what = "Public() is not the key's public key"
				case secs[g] != nil && !lib.Eq(secs[g], ss):
					what = "Decapsulate differs from the sender's secret"
				case acts[g] != nil && (!lib.Eq(acts[g], actWant) || !lib.Eq(asss[g], assWant)):
					what = "AuthEncapsulate differs from the sequential result"
				}
				if what != "" {
					lib.Violation("C06:parties-disagree:concurrent-first-use:"+name, mon,
						lib.D("round", it, "goroutine", g, "what", what, "public_got", pubs[g], "public_want", encPk, "goroutines", G))
					bad = true
					break
				}
			}
		}
	}
}

// TestVerifKEMHandOuts: the octet strings a key object hands out
// (MarshalBinary of private and public keys, of the public key Public()
// returns) are the caller's: a caller that wipes the exported secret, or
// re-uses the buffer, must leave the key object what it was - it still
// decapsulates what was encapsulated to its public key, exports the same
// octets again, and Public() is still X(k, base point).
func TestVerifKEMHandOuts(t *testing.T) {
	const mon = "TestVerifKEMHandOuts"
	lib.Mandatory("kem-hand-outs:keys")
	for _, s := range []kem.Scheme{
		hpke.KEM_X25519_HKDF_SHA256.Scheme(), hpke.KEM_X448_HKDF_SHA512.Scheme(),
		hybrid.Kyber768X25519(), hybrid.X25519MLKEM768(), hybrid.Kyber768X448(), hybrid.Kyber1024X448(),
		xwing.Scheme(), hpke.KEM_XWING.Scheme(), hpke.KEM_X25519_KYBER768_DRAFT00.Scheme(),
	} {
		name := s.Name()
		for i := 0; i < lib.Scale(4, 40); i++ {
			r := lib.NewRng("c06/hand-outs/"+name, i)
			seed := r.Bytes(s.SeedSize())
			pk, sk := s.DeriveKeyPair(lib.Clone(seed))
			es := r.Bytes(s.EncapsulationSeedSize())
			ct, ss, err := s.EncapsulateDeterministically(pk, es)
			if err != nil {
				continue
			}
			lib.Case([]byte("hand-outs"), []byte(name), seed)
			lib.Count("kem-hand-outs:keys")
			wipe := func(b []byte) []byte {
				keep := lib.Clone(b)
				for j := range b {
					b[j] = 0xEE
				}
				// ... and up to the capacity
				b = b[:cap(b)]
				for j := len(keep); j < len(b); j++ {
					b[j] = 0xEE
				}
				return keep
			}
			skb, _ := sk.MarshalBinary()
			skKeep := wipe(skb)
			pkb, _ := pk.MarshalBinary()
			pkKeep := wipe(pkb)
			ppb, _ := sk.Public().MarshalBinary()
			wipe(ppb)
			d := lib.D("scheme", name, "seed", seed)
			got, derr := s.Decapsulate(sk, lib.Clone(ct))
			if derr != nil || !lib.Eq(got, ss) {
				d["err"] = derr
				lib.Violation("C06:key-changed-by-writing-to-exported-octets:"+name+":Decapsulate", mon, d)
				continue
			}
			skNow, _ := sk.MarshalBinary()
			pkNow, _ := pk.MarshalBinary()
			ppNow, _ := sk.Public().MarshalBinary()
			if !lib.Eq(skNow, skKeep) || !lib.Eq(pkNow, pkKeep) || !lib.Eq(ppNow, pkKeep) {
				d["private_key_same"], d["public_key_same"], d["Public()_same"] = lib.Eq(skNow, skKeep), lib.Eq(pkNow, pkKeep), lib.Eq(ppNow, pkKeep)
				lib.Violation("C06:key-changed-by-writing-to-exported-octets:"+name, mon, d)
				continue
			}
			// a sender encapsulating to Public() and the key owner still agree
			if pub, ok := sk.Public().(kem.PublicKey); ok {
				ct2, ss2, e2 := s.EncapsulateDeterministically(pub, es)
				if e2 != nil || !lib.Eq(ct2, ct) || !lib.Eq(ss2, ss) {
					lib.Violation("C06:key-changed-by-writing-to-exported-octets:"+name+":Public", mon, d)
				}
			}
		}
	}
}
