//go:build verif

package c04

// Self-validation of ref/mldsa: a failing oracle makes the run INCONCLUSIVE (t.Fatal),
// never a violation.
//
//   - NTT-based multiplication == schoolbook multiplication in Z_q[X]/(X^256+1)
//   - NIST ACVP keyGen / sigGen (deterministic and hedged, internal interface) /
//     sigVer files under /repo/sign/mldsa/testdata
//   - the PQCsignKAT transcripts (AES-CTR-DRBG driven, 100 key pairs and signatures per
//     set) whose SHA-256 the pq-crystals reference implementation produced, for
//     Dilithium2/3/5 (round 3.1) and ML-DSA-44/65/87 (this also validates the pure
//     ML-DSA framing with the empty context); hashes as quoted in
//     /repo/sign/dilithium/kat_test.go.

import (
	"bytes"
	"compress/gzip"
	"crypto/aes"
	"crypto/sha256"
	"encoding/hex"
	"encoding/json"
	"fmt"
	"io"
	"os"
	"path/filepath"
	"sync"
	"testing"

	"github.com/cloudflare/circl/internal/zzverif/lib"
	"github.com/cloudflare/circl/internal/zzverif/ref/mldsa"
)

func repoRoot() string {
	if v := os.Getenv("VERIF_REPO"); v != "" {
		return v
	}
	return "/repo"
}

type hexBytes []byte

func (b *hexBytes) UnmarshalJSON(data []byte) (err error) {
	var s string
	if err = json.Unmarshal(data, &s); err != nil {
		return err
	}
	*b, err = hex.DecodeString(s)
	return err
}

func readGz(t *testing.T, path string, v any) {
	f, err := os.Open(path)
	if err != nil {
		t.Fatal(err)
	}
	defer f.Close()
	r, err := gzip.NewReader(f)
	if err != nil {
		t.Fatal(err)
	}
	b, err := io.ReadAll(r)
	if err != nil {
		t.Fatal(err)
	}
	if err := json.Unmarshal(b, v); err != nil {
		t.Fatal(err)
	}
}

type acvpFile struct {
	TestGroups []struct {
		TgID          int      `json:"tgId"`
		ParameterSet  string   `json:"parameterSet"`
		Deterministic bool     `json:"deterministic"`
		Pk            hexBytes `json:"pk"`
		Tests         []struct {
			TcID       int      `json:"tcId"`
			Seed       hexBytes `json:"seed"`
			Sk         hexBytes `json:"sk"`
			Pk         hexBytes `json:"pk"`
			Message    hexBytes `json:"message"`
			Rnd        hexBytes `json:"rnd"`
			Signature  hexBytes `json:"signature"`
			TestPassed *bool    `json:"testPassed"`
		} `json:"tests"`
	} `json:"testGroups"`
}

func TestVerifSelfCheckPolyMul(t *testing.T) {
	r := lib.NewRng("c04/selfcheck/mul", 0)
	for n := 0; n < 20; n++ {
		var a, b mldsa.Poly
		for i := range a {
			a[i] = int64(r.Intn(mldsa.Q))
			b[i] = int64(r.Intn(mldsa.Q))
			if n == 0 {
				a[i], b[i] = mldsa.Q-1, mldsa.Q-1
			}
		}
		want := mldsa.MulSchool(a, b)
		ah, bh := mldsa.NTT(a), mldsa.NTT(b)
		var ch mldsa.Poly
		for i := range ch {
			ch[i] = ah[i] * bh[i] % mldsa.Q
		}
		if got := mldsa.InvNTT(ch); got != want {
			t.Fatalf("reference NTT multiplication differs from schoolbook (n=%d)", n)
		}
		if mldsa.InvNTT(ah) != a {
			t.Fatal("reference InvNTT(NTT(a)) != a")
		}
	}
	lib.Count("selfcheck:polymul")
}

func TestVerifSelfCheckACVP(t *testing.T) {
	base := filepath.Join(repoRoot(), "sign/mldsa/testdata")
	// the vector files are data, not code under test; when a mutant copy is in use
	// they are identical to /repo's.
	var prompt, expect acvpFile
	type res struct {
		pk, sk, sig []byte
		passed      *bool
	}
	load := func(sub string) map[int]res {
		prompt, expect = acvpFile{}, acvpFile{}
		readGz(t, filepath.Join(base, "ML-DSA-"+sub+"-FIPS204/prompt.json.gz"), &prompt)
		readGz(t, filepath.Join(base, "ML-DSA-"+sub+"-FIPS204/expectedResults.json.gz"), &expect)
		m := map[int]res{}
		for _, g := range expect.TestGroups {
			for _, tc := range g.Tests {
				m[tc.TcID] = res{tc.Pk, tc.Sk, tc.Signature, tc.TestPassed}
			}
		}
		return m
	}

	want := load("keyGen")
	n := 0
	for _, g := range prompt.TestGroups {
		p := mldsa.ByName(g.ParameterSet)
		if p == nil {
			t.Fatalf("unknown parameter set %q", g.ParameterSet)
		}
		for _, tc := range g.Tests {
			pk, sk := p.KeyGen(tc.Seed)
			w, ok := want[tc.TcID]
			if !ok || !bytes.Equal(pk, w.pk) || !bytes.Equal(sk, w.sk) {
				t.Fatalf("reference keyGen differs from ACVP tcId %d (%s)", tc.TcID, p.Name)
			}
			n++
		}
	}
	if n < 75 {
		t.Fatalf("only %d ACVP keyGen vectors", n)
	}
	lib.CountN("selfcheck:acvp-keygen", n)

	want = load("sigGen")
	n = 0
	hedged := 0
	type job struct {
		p       *mldsa.Params
		sk, msg []byte
		rnd     []byte
		want    []byte
		id      int
	}
	var jobs []job
	for _, g := range prompt.TestGroups {
		p := mldsa.ByName(g.ParameterSet)
		for _, tc := range g.Tests {
			rnd := make([]byte, 32)
			if !g.Deterministic {
				copy(rnd, tc.Rnd)
				hedged++
			}
			jobs = append(jobs, job{p, tc.Sk, tc.Message, rnd, want[tc.TcID].sig, tc.TcID})
		}
	}
	var mu sync.Mutex
	bad := -1
	lib.Par(len(jobs), func(i int) {
		j := jobs[i]
		if got := j.p.SignInternal(j.sk, j.msg, j.rnd, nil); !bytes.Equal(got, j.want) {
			mu.Lock()
			bad = j.id
			mu.Unlock()
		}
	})
	if bad >= 0 {
		t.Fatalf("reference sigGen differs from ACVP tcId %d", bad)
	}
	if len(jobs) < 60 || hedged < 30 {
		t.Fatalf("only %d ACVP sigGen vectors (%d hedged)", len(jobs), hedged)
	}
	lib.CountN("selfcheck:acvp-siggen", len(jobs))
	lib.CountN("selfcheck:acvp-siggen-hedged", hedged)

	want = load("sigVer")
	n = 0
	rejects := 0
	for _, g := range prompt.TestGroups {
		p := mldsa.ByName(g.ParameterSet)
		for _, tc := range g.Tests {
			w := want[tc.TcID]
			if w.passed == nil {
				t.Fatalf("no verdict for tcId %d", tc.TcID)
			}
			if got := p.VerifyInternal(g.Pk, tc.Message, tc.Signature); got != *w.passed {
				t.Fatalf("reference sigVer verdict %v differs from ACVP tcId %d (%v)", got, tc.TcID, *w.passed)
			}
			if !*w.passed {
				rejects++
			}
			n++
		}
	}
	if n < 45 || rejects == 0 {
		t.Fatalf("only %d ACVP sigVer vectors, %d rejecting", n, rejects)
	}
	lib.CountN("selfcheck:acvp-sigver", n)
}

// ---- NIST AES-256 CTR DRBG (rng.c of the PQC submission package)

type drbg struct {
	key [32]byte
	v   [16]byte
}

func (g *drbg) incV() {
	for j := 15; j >= 0; j-- {
		g.v[j]++
		if g.v[j] != 0 {
			break
		}
	}
}

func (g *drbg) update(pd *[48]byte) {
	var tmp [48]byte
	c, _ := aes.NewCipher(g.key[:])
	for i := 0; i < 3; i++ {
		g.incV()
		c.Encrypt(tmp[16*i:16*i+16], g.v[:])
	}
	if pd != nil {
		for i := range tmp {
			tmp[i] ^= pd[i]
		}
	}
	copy(g.key[:], tmp[:32])
	copy(g.v[:], tmp[32:])
}

func newDRBG(seed *[48]byte) *drbg {
	g := &drbg{}
	g.update(seed)
	return g
}

func (g *drbg) fill(x []byte) {
	var blk [16]byte
	c, _ := aes.NewCipher(g.key[:])
	for len(x) > 0 {
		g.incV()
		c.Encrypt(blk[:], g.v[:])
		n := copy(x, blk[:])
		x = x[n:]
	}
	g.update(nil)
}

func TestVerifSelfCheckKAT(t *testing.T) {
	cases := []struct{ name, kat, want string }{
		{"Dilithium2", "Dilithium2", "38ed991c5ca11e39ab23945ca37af89e059d16c5474bf8ba96b15cb4e948af2a"},
		{"Dilithium3", "Dilithium3", "8196b32212753f525346201ffec1c7a0a852596fa0b57bd4e2746231dab44d55"},
		{"Dilithium5", "Dilithium5", "7ded97a6e6c809b43b54c248171d7504fa6a0cab651bf288bb00034782667481"},
		{"ML-DSA-44", "Dilithium2", "14f92c48abc0d63ea263cce3c83183c8360c6ede7cbd5b65bd7c6f31e38f0ea5"},
		{"ML-DSA-65", "Dilithium3", "595a8eff6988159c94eb5398294458c5d27d21c994fb64cadbee339173abcf63"},
		{"ML-DSA-87", "Dilithium5", "35e2ce3d88b3311517bf8d41aa2cd24aa0fbda2bb8052ca8af4ad8d7c7344074"},
	}
	errs := make([]string, len(cases))
	type entry struct {
		seed        [48]byte
		msg         []byte
		pk, sk, sig []byte
	}
	ents := make([][]entry, len(cases))
	for ci := range cases {
		var seed [48]byte
		for i := range seed {
			seed[i] = byte(i)
		}
		g := newDRBG(&seed)
		for i := 0; i < 100; i++ {
			var e entry
			g.fill(seed[:])
			e.seed = seed
			e.msg = make([]byte, 33*(i+1))
			g.fill(e.msg)
			ents[ci] = append(ents[ci], e)
		}
	}
	zero := make([]byte, 32)
	lib.Par(len(cases)*100, func(x int) {
		ci, i := x%len(cases), x/len(cases)
		p := mldsa.ByName(cases[ci].name)
		e := &ents[ci][i]
		g2 := newDRBG(&e.seed)
		var eseed [32]byte
		g2.fill(eseed[:])
		e.pk, e.sk = p.KeyGen(eseed[:])
		mp, _ := p.MPrime(nil, e.msg)
		e.sig = p.SignInternal(e.sk, mp, zero, nil)
		if !p.VerifyInternal(e.pk, mp, e.sig) {
			errs[ci] = "reference does not verify its own signature: " + p.Name
		}
	})
	for ci, tc := range cases {
		p := mldsa.ByName(tc.name)
		f := sha256.New()
		fmt.Fprintf(f, "# %s\n\n", tc.kat)
		for i, e := range ents[ci] {
			mlen := len(e.msg)
			fmt.Fprintf(f, "count = %d\nseed = %X\nmlen = %d\nmsg = %X\n", i, e.seed, mlen, e.msg)
			fmt.Fprintf(f, "pk = %X\nsk = %X\nsmlen = %d\n", e.pk, e.sk, mlen+p.SigSize())
			fmt.Fprintf(f, "sm = %X%X\n\n", e.sig, e.msg)
		}
		if got := fmt.Sprintf("%x", f.Sum(nil)); got != tc.want && errs[ci] == "" {
			errs[ci] = fmt.Sprintf("reference %s: PQCsignKAT hash %s, reference implementation %s", tc.name, got, tc.want)
		}
	}
	for _, e := range errs {
		if e != "" {
			t.Fatal(e)
		}
	}
	lib.CountN("selfcheck:kat-transcripts", len(cases))
}
