//go:build verif

package c18

import (
	"crypto"
	"crypto/rsa"
	"fmt"
	"math/big"
	"sync/atomic"
	"testing"

	"github.com/cloudflare/circl/blindsign/blindrsa"
	pbrsa "github.com/cloudflare/circl/blindsign/blindrsa/partiallyblindrsa"
	"github.com/cloudflare/circl/internal/zzverif/lib"
	"github.com/cloudflare/circl/internal/zzverif/ref/rsapss"
)

const monDiff = "TestVerifVerifierDifferential"

// TestVerifVerifierDifferential: circl's PSS verifier against
// crypto/rsa.VerifyPSS on the same (message, signature) pairs; the pairs
// cover every defect class of the encoded message (built with the private
// key), of the signature octets and of the message.
func TestVerifVerifierDifferential(t *testing.T) {
	lib.Mandatory("diff:pairs", "diff:both-accept", "diff:both-reject", "diff:class:em:trailer", "diff:class:em:leading-bit-set",
		"diff:class:em:ps-nonzero", "diff:class:em:separator", "diff:class:em:salt-length-other", "diff:class:em:above-emLen",
		"diff:class:sig:plus-multiple-of-N", "diff:class:sig:special-value", "diff:class:sig:bitflip", "diff:accepted:em:salt-length-other")
	type dc struct {
		key *rsaKey
		vi  variantInfo
		i   int
	}
	var cases []dc
	// one batch of ~75 pairs per index; quick: 2 batches per (key, variant) ~ 3 600 pairs
	per := map[string]int{"plain-1024": 2, "plain-1025": 2, "plain-1026": 1, "plain-1027": 1, "plain-1028": 1, "plain-1029": 1, "plain-1030": 1, "plain-1031": 1, "plain-1536": 2, "plain-2041": 3, "plain-2048": 2, "plain-2048-e7": 1, "plain-2048-e11": 1, "plain-2048-e65539": 1, "plain-3072": 2, "plain-4096": 1}
	for _, name := range plainKeyNames {
		k := loadKey(t, name)
		for _, vi := range variants[:] {
			for i := 0; i < lib.Scale(per[name], 100*per[name]); i++ {
				cases = append(cases, dc{k, vi, i})
			}
		}
	}
	var refDisagree int64
	lib.Par(len(cases), func(ci int) {
		c := cases[ci]
		k := c.key
		pub := &k.sk.PublicKey
		e := big.NewInt(int64(pub.E))
		id := fmt.Sprintf("%s/%s", k.name, c.vi.name)
		r := lib.NewRng("c18/diff/"+id, c.i)
		verifier, err := blindrsa.NewVerifier(c.vi.v, pub)
		if err != nil {
			lib.Violation("C18:new-verifier-fails:blindrsa.NewVerifier", monDiff, lib.D("variant", c.vi.name, "err", err))
			return
		}
		client, _ := blindrsa.NewClient(c.vi.v, pub)
		msg := msgOfLen(r, c.i)
		opts := &rsa.PSSOptions{SaltLength: c.vi.saltLen, Hash: crypto.SHA384}
		refSL := c.vi.saltLen
		if refSL == 0 {
			refSL = rsapss.SaltAuto
		}
		for _, f := range craft(r, k, k.sk.D, crypto.SHA384, msg, c.vi.saltLen, 1) {
			mh := hashOf(crypto.SHA384, f.msg)
			std := rsa.VerifyPSS(pub, crypto.SHA384, mh, f.sig, opts) == nil
			var e1, e2 error
			lib.Case([]byte("diff"), []byte(id), f.msg, f.sig)
			lib.Count("diff:pairs")
			lib.Count("diff:class:" + f.class)
			p := lib.Try("blindrsa.Verifier.Verify:"+f.class, f.sig, func() {
				e1 = verifier.Verify(f.msg, f.sig)
				e2 = client.Verify(f.msg, f.sig)
			})
			if p != nil {
				lib.Violation("C18:verifier-panics:blindrsa.Verifier.Verify:"+f.class, monDiff, lib.D("rsa_key", k.name, "variant", c.vi.name, "msg", f.msg, "sig", f.sig, "panic", p.Value, "frame", p.TopFrame()))
				continue
			}
			if (e1 == nil) != (e2 == nil) {
				lib.Violation("C18:client-and-verifier-differ:blindrsa.Client.Verify", monDiff, lib.D("rsa_key", k.name, "variant", c.vi.name, "msg", f.msg, "sig", f.sig))
			}
			got := e1 == nil
			if got != std {
				lib.Violation("C18:verifier-verdict-differs:blindrsa.Verifier.Verify:"+f.class, monDiff, lib.D("rsa_key", k.name, "modulus_bits", k.N.BitLen(), "variant", c.vi.name,
					"msg", f.msg, "sig", f.sig, "circl_accepts", got, "crypto_rsa_accepts", std, "salt_length_option", c.vi.saltLen))
			} else if got {
				lib.Count("diff:both-accept")
				lib.Count("diff:accepted:" + f.class)
			} else {
				lib.Count("diff:both-reject")
			}
			// second oracle; a disagreement between the two oracles is a harness error
			if rsapss.Verify(crypto.SHA384, k.N, e, mh, f.sig, refSL) != std {
				atomic.AddInt64(&refDisagree, 1)
			}
			// information: the PSSZero variants accept salted signatures (salt length 0 means "auto" in crypto/rsa and in circl)
			if c.vi.saltLen == 0 && got && !rsapss.Verify(crypto.SHA384, k.N, e, mh, f.sig, 0) {
				lib.Count("diff:zero-variant-accepts-nonzero-salt(same-as-crypto/rsa-auto)")
			}
		}
	})
	if refDisagree != 0 {
		t.Fatalf("reference verifier and crypto/rsa disagree on %d pairs: oracle inconsistent", refDisagree)
	}
}

const monPBDiff = "TestVerifPartiallyBlindVerifierDifferential"

// The partially blind verifier uses a 500..1000-bit public exponent that
// crypto/rsa cannot represent; its verdicts are compared with the reference
// verifier (validated against crypto/rsa and RFC 9474 in the self-check).
func TestVerifPartiallyBlindVerifierDifferential(t *testing.T) {
	lib.Mandatory("pbdiff:pairs", "pbdiff:both-accept", "pbdiff:both-reject")
	type dc struct {
		key *rsaKey
		i   int
	}
	var cases []dc
	for ki, name := range safeKeyNames {
		k := loadKey(t, name)
		for i := 0; i < lib.Scale([]int{3, 3, 2, 2}[ki], []int{300, 250, 200, 150}[ki]); i++ {
			cases = append(cases, dc{k, i})
		}
	}
	// the verifier needs no safe primes: also moduli of 3072 and 4096 bits (the
	// derived public exponent is then longer than 256 octets)
	for _, name := range []string{"plain-3072", "plain-4096"} {
		k := loadKey(t, name)
		for i := 0; i < lib.Scale(1, 40); i++ {
			cases = append(cases, dc{k, i})
		}
	}
	lib.Par(len(cases), func(ci int) {
		c := cases[ci]
		k := c.key
		h := crypto.SHA384
		r := lib.NewRng("c18/pbdiff/"+k.name, c.i)
		msg := msgOfLen(r, c.i)
		info := metadataOf(r, c.i)
		verifier := pbrsa.NewVerifier(&k.sk.PublicKey, h)
		ePrime := rsapss.AugmentedExponent(h, k.N, info)
		dPrime := new(big.Int).ModInverse(ePrime, k.phi)
		if dPrime == nil {
			// the derived exponent is not invertible for this key (no safe
			// primes): no genuine signature exists, arbitrary strings of the
			// right length are still judged by both verifiers
			for j := 0; j < 4; j++ {
				sig := r.Bytes(k.k)
				sig[0] = byte(j % 2)
				want := rsapss.Verify(h, k.N, ePrime, hashOf(h, rsapss.EncodeMessageMetadata(msg, info)), sig, h.Size())
				var err error
				lib.Count("pbdiff:pairs")
				lib.Count("pbdiff:class:no-private-exponent")
				if p := lib.Try("partiallyblindrsa.Verifier.Verify:arbitrary", sig, func() { err = verifier.Verify(msg, info, sig) }); p != nil {
					lib.Violation("C18:verifier-panics:partiallyblindrsa.Verifier.Verify:arbitrary-signature", monPBDiff, lib.D("rsa_key", k.name, "modulus_bits", k.N.BitLen(), "metadata", info, "sig", sig, "panic", p.Value))
					return
				}
				if (err == nil) != want {
					lib.Violation("C18:verifier-verdict-differs:partiallyblindrsa.Verifier.Verify:arbitrary-signature", monPBDiff, lib.D("rsa_key", k.name, "sig", sig, "circl_accepts", err == nil, "reference_accepts", want))
				}
			}
			return
		}
		hm := func(m []byte) []byte { return hashOf(h, rsapss.EncodeMessageMetadata(m, info)) }
		for _, f := range craftWith(r, k, dPrime, h, msg, h.Size(), 1, hm) {
			want := rsapss.Verify(h, k.N, ePrime, hm(f.msg), f.sig, h.Size())
			var err error
			lib.Case([]byte("pbdiff"), []byte(k.name), f.msg, info, f.sig)
			lib.Count("pbdiff:pairs")
			lib.Count("pbdiff:class:" + f.class)
			p := lib.Try("partiallyblindrsa.Verifier.Verify:"+f.class, f.sig, func() { err = verifier.Verify(f.msg, info, f.sig) })
			if p != nil {
				lib.Violation("C18:verifier-panics:partiallyblindrsa.Verifier.Verify:"+f.class, monPBDiff, lib.D("rsa_key", k.name, "msg", f.msg, "metadata", info, "sig", f.sig, "panic", p.Value))
				continue
			}
			if (err == nil) != want {
				lib.Violation("C18:verifier-verdict-differs:partiallyblindrsa.Verifier.Verify:"+f.class, monPBDiff, lib.D("rsa_key", k.name, "modulus_bits", k.N.BitLen(),
					"msg", f.msg, "metadata", info, "sig", f.sig, "circl_accepts", err == nil, "reference_accepts", want))
			} else if want {
				lib.Count("pbdiff:both-accept")
			} else {
				lib.Count("pbdiff:both-reject")
			}
		}
	})
}
