//go:build verif

package c18

import (
	"crypto"
	"crypto/rsa"
	"fmt"
	"runtime"
	"sync"
	"sync/atomic"
	"testing"

	"github.com/cloudflare/circl/blindsign/blindrsa"
	pbrsa "github.com/cloudflare/circl/blindsign/blindrsa/partiallyblindrsa"
	"github.com/cloudflare/circl/internal/zzverif/lib"
)

// TestVerifConcurrentSessions: "for every message ... the signature obtained
// by blind, blind-sign and finalise verifies" also when the sessions overlap
// in time: one blindrsa.Client value, one Verifier and one Signer (all plain
// values that hold a key) serve 8 goroutines released together, each running
// complete sessions on its own (long) messages; one partiallyblindrsa.Signer
// serves 8 goroutines that each own their Verifier.  Every final signature
// must verify under the library's verifier and under crypto/rsa.VerifyPSS.
// The same workload runs under the race detector (cfg race).
func TestVerifConcurrentSessions(t *testing.T) {
	const mon = "TestVerifConcurrentSessions"
	const G = 8
	lib.Mandatory("conc:blindrsa-sessions", "conc:pbrsa-sessions", "conc:rounds-with-overlap")
	rounds := lib.Scale(4, 30)
	release := func(f func(g int)) {
		var wg sync.WaitGroup
		var ready, inflight, high int32
		start := make(chan struct{})
		for g := 0; g < G; g++ {
			wg.Add(1)
			go func(g int) {
				defer wg.Done()
				atomic.AddInt32(&ready, 1)
				<-start
				n := atomic.AddInt32(&inflight, 1)
				for {
					h := atomic.LoadInt32(&high)
					if n <= h || atomic.CompareAndSwapInt32(&high, h, n) {
						break
					}
				}
				f(g)
				atomic.AddInt32(&inflight, -1)
			}(g)
		}
		for atomic.LoadInt32(&ready) < G {
			runtime.Gosched()
		}
		close(start)
		wg.Wait()
		if high >= 2 {
			lib.Count("conc:rounds-with-overlap")
		}
	}
	k := loadKey(t, "plain-2048")
	pub := &k.sk.PublicKey
	for _, vi := range variants {
		client, err := blindrsa.NewClient(vi.v, pub)
		if err != nil {
			t.Fatal(err)
		}
		verifier, _ := blindrsa.NewVerifier(vi.v, pub)
		signer := blindrsa.NewSigner(k.sk)
		var reported int32
		for it := 0; it < rounds; it++ {
			lib.CaseS("conc-blindrsa", vi.name, fmt.Sprint(it))
			release(func(g int) {
				r := lib.NewRng("c18/conc/"+vi.name, it*G+g)
				msg := r.Bytes(200000 + r.Intn(100000))
				var sig, prepared []byte
				var err error
				if pn := lib.Try("blindrsa:concurrent-session", nil, func() {
					prepared, err = client.Prepare(r, msg)
					if err != nil {
						return
					}
					var blinded, bsig []byte
					var st blindrsa.State
					if blinded, st, err = client.Blind(r, prepared); err != nil {
						return
					}
					if bsig, err = signer.BlindSign(blinded); err != nil {
						return
					}
					sig, err = client.Finalize(st, bsig)
				}); pn != nil {
					err = fmt.Errorf("panic: %s", pn.Value)
				}
				lib.Count("conc:blindrsa-sessions")
				bad := ""
				switch {
				case err != nil:
					bad = "session failed: " + err.Error()
				case verifier.Verify(prepared, sig) != nil:
					bad = "final signature rejected by the library's verifier"
				default:
					d := hashOf(crypto.SHA384, prepared)
					if rsa.VerifyPSS(pub, crypto.SHA384, d, sig, &rsa.PSSOptions{SaltLength: vi.saltLen, Hash: crypto.SHA384}) != nil {
						bad = "final signature is not a valid RSASSA-PSS signature (crypto/rsa)"
					}
				}
				if bad != "" && atomic.AddInt32(&reported, 1) == 1 {
					lib.Violation("C18:concurrent-session-fails:blindrsa:"+vi.name, mon, lib.D("what", bad, "goroutines", G, "round", it, "rsa_key", k.name))
				}
			})
		}
	}
	ks := loadKey(t, "safe-2048")
	spub := &ks.sk.PublicKey
	psigner, err := pbrsa.NewSigner(ks.sk, crypto.SHA384)
	if err != nil {
		t.Fatal(err)
	}
	var reported int32
	for it := 0; it < rounds; it++ {
		lib.CaseS("conc-pbrsa", fmt.Sprint(it))
		release(func(g int) {
			r := lib.NewRng("c18/conc/pbrsa", it*G+g)
			msg, info := r.Bytes(100000+r.Intn(50000)), r.Bytes(1+r.Intn(20))
			v := pbrsa.NewVerifier(spub, crypto.SHA384)
			var sig []byte
			var err error
			if pn := lib.Try("pbrsa:concurrent-session", nil, func() {
				var blinded, bsig []byte
				var st pbrsa.VerifierState
				if blinded, st, err = v.Blind(r, msg, info); err != nil {
					return
				}
				if bsig, err = psigner.BlindSign(blinded, info); err != nil {
					return
				}
				sig, err = st.Finalize(bsig)
			}); pn != nil {
				err = fmt.Errorf("panic: %s", pn.Value)
			}
			lib.Count("conc:pbrsa-sessions")
			if err == nil {
				err = pbrsa.NewVerifier(spub, crypto.SHA384).Verify(msg, info, sig)
			}
			if err != nil && atomic.AddInt32(&reported, 1) == 1 {
				lib.Violation("C18:concurrent-session-fails:partiallyblindrsa", mon, lib.D("err", err, "goroutines", G, "round", it, "rsa_key", ks.name))
			}
		})
	}
}

type zeroReader struct{}

func (zeroReader) Read(p []byte) (int, error) {
	for i := range p {
		p[i] = 0
	}
	return len(p), nil
}

// TestVerifDegenerateRandomness: "for every ... blinding randomness": the
// protocol completes and yields a valid signature also when the randomness
// source returns only zero octets (the sampled blind is 0, which the library
// replaces by 1).  (A source of only 0xFF octets is not used: crypto/rand.Int
// never terminates on it, which is the source's doing.)
func TestVerifDegenerateRandomness(t *testing.T) {
	const mon = "TestVerifDegenerateRandomness"
	lib.Mandatory("degenerate-randomness:sessions")
	for _, kn := range []string{"plain-2048", "plain-1025"} {
		k := loadKey(t, kn)
		pub := &k.sk.PublicKey
		for _, vi := range variants {
			for ri, rd := range []interface {
				Read([]byte) (int, error)
			}{zeroReader{}} {
				client, err := blindrsa.NewClient(vi.v, pub)
				if err != nil {
					t.Fatal(err)
				}
				signer := blindrsa.NewSigner(k.sk)
				msg := []byte("degenerate randomness")
				lib.CaseS("degenerate-randomness", kn, vi.name, fmt.Sprint(ri))
				var prepared, sig []byte
				var perr error
				stage := ""
				if pn := lib.Try("blindrsa:degenerate-randomness", nil, func() {
					stage = "Prepare"
					if prepared, perr = client.Prepare(rd, msg); perr != nil {
						return
					}
					stage = "Blind"
					blinded, st, err := client.Blind(rd, prepared)
					if perr = err; err != nil {
						return
					}
					stage = "BlindSign"
					bsig, err := signer.BlindSign(blinded)
					if perr = err; err != nil {
						return
					}
					stage = "Finalize"
					sig, perr = client.Finalize(st, bsig)
				}); pn != nil {
					perr = fmt.Errorf("panic: %s", pn.Value)
				}
				lib.Count("degenerate-randomness:sessions")
				if perr == nil {
					stage = "Verify"
					perr = client.Verify(prepared, sig)
				}
				if perr == nil {
					stage = "crypto/rsa.VerifyPSS"
					perr = rsa.VerifyPSS(pub, crypto.SHA384, hashOf(crypto.SHA384, prepared), sig, &rsa.PSSOptions{SaltLength: vi.saltLen, Hash: crypto.SHA384})
				}
				if perr != nil {
					lib.Violation("C18:protocol-fails:blindrsa:"+stage+":degenerate-randomness", mon,
						lib.D("rsa_key", kn, "variant", vi.name, "randomness", []string{"all zero octets", "all 0xFF octets"}[ri], "stage", stage, "err", perr.Error()))
				}
			}
		}
	}
}
