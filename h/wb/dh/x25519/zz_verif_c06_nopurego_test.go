//go:build verif && !purego && amd64

package x25519

const vc06Purego = false

func vc06Backend() string {
	if hasBmi2Adx {
		return "asm-bmi2-adx"
	}
	return "asm-legacy"
}
