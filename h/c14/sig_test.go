//go:build verif

package c14

import (
	"strings"
	"testing"

	"github.com/cloudflare/circl/internal/zzverif/lib"
	"github.com/cloudflare/circl/internal/zzverif/ref/mldsa"
	"github.com/cloudflare/circl/sign"
	"github.com/cloudflare/circl/sign/ed25519"
	"github.com/cloudflare/circl/sign/ed448"
	"github.com/cloudflare/circl/sign/schemes"
)

func opName(s string) string {
	s = strings.ToLower(s)
	s = strings.NewReplacer(" ", "", "/", "-", ":", "-").Replace(s)
	return s
}

func seedBytes(r *lib.Rng, n int) []byte {
	b := make([]byte, n)
	switch r.Intn(10) {
	case 0:
	case 1:
		for i := range b {
			b[i] = 0xff
		}
	default:
		r.Read(b)
	}
	return b
}

func sigKinds() []kind {
	var ks []kind
	for _, s := range schemes.All() {
		s := s
		n := opName(s.Name())
		heavy := strings.Contains(n, "dilithium") || strings.Contains(n, "ml-dsa")
		q, t := 10, 1200
		if !heavy {
			q, t = 14, 2000
		}
		ks = append(ks, kind{"sig." + n, q, t, func(r *lib.Rng, k int, o *rec) {
			seed := seedBytes(r, s.SeedSize())
			msg := msgBytes(r, edgeLen(r, 0, 1, 32, 64, 136, 200, 1000))
			var opts *sign.SignatureOpts
			if s.SupportsContext() && r.Bool() {
				opts = &sign.SignatureOpts{Context: string(r.Bytes(r.Intn(256)))}
				o.In("ctx", []byte(opts.Context))
			}
			o.In("seed", seed)
			o.In("msg", msg)
			pk, sk := s.DeriveKey(seed)
			pkb, err := pk.MarshalBinary()
			o.OutErr("pk.err", err)
			o.Out("pk", pkb)
			skb, err := sk.MarshalBinary()
			o.OutErr("sk.err", err)
			o.Out("sk", skb)
			sig := s.Sign(sk, msg, opts)
			o.Out("sig", sig)
			ok := s.Verify(pk, msg, sig, opts)
			o.OutBool("verify", ok)
			if ok {
				lib.Count("c14/Sig/verify-accept")
			}
			// through the serialised forms
			pk2, err := s.UnmarshalBinaryPublicKey(pkb)
			o.OutErr("pk2.err", err)
			sk2, err2 := s.UnmarshalBinaryPrivateKey(skb)
			o.OutErr("sk2.err", err2)
			if err == nil && err2 == nil {
				sig2 := s.Sign(sk2, msg, opts)
				o.Out("sig2", sig2)
				o.OutBool("verify2", s.Verify(pk2, msg, sig2, opts))
				b, _ := sk2.MarshalBinary()
				o.Out("sk2", b)
			}
			// altered signature and altered message
			bad := lib.FlipBit(sig, r.Intn(8*len(sig)))
			v := s.Verify(pk, msg, bad, opts)
			o.OutBool("verify-bitflip", v)
			if !v {
				lib.Count("c14/Sig/verify-reject")
			}
			o.OutBool("verify-msg", s.Verify(pk, append(lib.Clone(msg), 0), sig, opts))
		}})
		if rp := mldsa.ByName(s.Name()); rp != nil {
			// keys whose matrix seed makes ExpandA's rejection sampler see a
			// candidate equal to q (about one seed in 1000; the seed is found
			// with the reference sampler and put into a key built from chosen
			// seeds): the four-way and the scalar sampler must reject it alike
			ks = append(ks, kind{"sig.boundary-rho." + n, 2, 40, func(r *lib.Rng, k int, o *rec) {
				tag := r.Bytes(16)
				rho, bi, bj, ok := rp.BoundaryRho(tag, 20000)
				if !ok {
					return
				}
				lib.Count("c14/Sig/boundary-rho-keys")
				rpk, rsk, _ := rp.KeyFromSeeds(rho, r.Bytes(64), r.Bytes(32))
				msg := r.Bytes(33)
				o.In("rho", rho)
				o.In("entry", []byte{byte(bi), byte(bj)})
				pk, e1 := s.UnmarshalBinaryPublicKey(rpk)
				sk, e2 := s.UnmarshalBinaryPrivateKey(rsk)
				o.OutErr("pk.err", e1)
				o.OutErr("sk.err", e2)
				if e1 != nil || e2 != nil {
					return
				}
				sig := s.Sign(sk, msg, nil)
				o.Out("sig", sig)
				o.OutBool("verify", s.Verify(pk, msg, sig, nil))
				if pub, ok := sk.Public().(sign.PublicKey); ok {
					b, _ := pub.MarshalBinary()
					o.Out("sk.public", b)
				}
			}})
		}
		ks = append(ks, kind{"sigverify-hostile." + n, q * 2 / 3, t / 2, func(r *lib.Rng, k int, o *rec) {
			seed := r.Bytes(s.SeedSize())
			msg := r.Bytes(r.Intn(80))
			o.In("seed", seed)
			o.In("msg", msg)
			pk, sk := s.DeriveKey(seed)
			sig := s.Sign(sk, msg, nil)
			pkb, _ := pk.MarshalBinary()
			// multi-byte edits of the signature, region by region
			for j := 0; j < 6; j++ {
				bad := lib.Clone(sig)
				pos := r.Intn(len(bad))
				ln := 1 + r.Intn(8)
				for i := pos; i < pos+ln && i < len(bad); i++ {
					switch j % 3 {
					case 0:
						bad[i] = 0
					case 1:
						bad[i] = 0xff
					default:
						bad[i] = byte(r.U64())
					}
				}
				o.In("badsig", bad)
				p := lib.Try("sigverify."+n, bad, func() { o.OutBool("v", s.Verify(pk, msg, bad, nil)) })
				if p != nil {
					o.Out("panic", []byte(p.Class()))
				}
			}
			// the tail of the signature (hint / scalar part) replaced
			bad := lib.Clone(sig)
			tail := 1 + r.Intn(100)
			if tail > len(bad) {
				tail = len(bad)
			}
			copy(bad[len(bad)-tail:], r.EdgeBytes(tail, 1))
			o.In("badtail", bad)
			p := lib.Try("sigverify."+n, bad, func() { o.OutBool("v-tail", s.Verify(pk, msg, bad, nil)) })
			if p != nil {
				o.Out("panic", []byte(p.Class()))
			}
			// honest signature under a damaged / arbitrary public key
			for j := 0; j < 3; j++ {
				bpk := lib.Clone(pkb)
				switch j {
				case 0:
					bpk[r.Intn(len(bpk))] ^= 1 << uint(r.Intn(8))
				case 1:
					copy(bpk[len(bpk)/2:], r.EdgeBytes(len(bpk)-len(bpk)/2, 1))
				default:
					for i := range bpk {
						bpk[i] = 0xff
					}
				}
				o.In("badpk", bpk)
				p := lib.Try("sigverify-pk."+n, bpk, func() {
					pk2, err := s.UnmarshalBinaryPublicKey(bpk)
					o.OutErr("pk.err", err)
					if err == nil {
						lib.Count("c14/Sig/hostile-pk-decoded")
						o.OutBool("v-pk", s.Verify(pk2, msg, sig, nil))
						b, _ := pk2.MarshalBinary()
						o.Out("pk-re", b)
					}
				})
				if p != nil {
					o.Out("panic", []byte(p.Class()))
				}
			}
		}})
	}
	ks = append(ks, kind{"ed25519.variants", 30, 3000, func(r *lib.Rng, k int, o *rec) {
		seed := seedBytes(r, ed25519.SeedSize)
		msg := msgBytes(r, edgeLen(r, 0, 1, 64, 128, 500))
		ctx := string(r.Bytes(1 + r.Intn(255)))
		o.In("seed", seed)
		o.In("msg", msg)
		o.In("ctx", []byte(ctx))
		sk := ed25519.NewKeyFromSeed(seed)
		pk := sk.Public().(ed25519.PublicKey)
		o.Out("sk", sk)
		o.Out("pk", pk)
		s0 := ed25519.Sign(sk, msg)
		s1 := ed25519.SignWithCtx(sk, msg, ctx)
		s2 := ed25519.SignPh(sk, msg, ctx)
		o.Out("sig", s0)
		o.Out("sigctx", s1)
		o.Out("sigph", s2)
		o.OutBool("v", ed25519.Verify(pk, msg, s0))
		o.OutBool("vctx", ed25519.VerifyWithCtx(pk, msg, s1, ctx))
		o.OutBool("vph", ed25519.VerifyPh(pk, msg, s2, ctx))
		o.OutBool("vcross", ed25519.VerifyWithCtx(pk, msg, s2, ctx))
		// non-canonical / small-order inputs
		bad := lib.Clone(s0)
		copy(bad[:32], x25519LowOrder[r.Intn(len(x25519LowOrder))])
		o.OutBool("v-lowR", ed25519.Verify(pk, msg, bad))
		bad = lib.Clone(s0)
		copy(bad[32:], r.EdgeBytes(32, 1))
		o.OutBool("v-edgeS", ed25519.Verify(pk, msg, bad))
		bpk := ed25519.PublicKey(r.EdgeBytes(32, 19))
		o.In("bpk", bpk)
		o.OutBool("v-edgepk", ed25519.Verify(bpk, msg, s0))
	}})
	ks = append(ks, kind{"ed448.variants", 24, 2400, func(r *lib.Rng, k int, o *rec) {
		seed := seedBytes(r, ed448.SeedSize)
		msg := msgBytes(r, edgeLen(r, 0, 1, 64, 136, 500))
		ctx := string(r.Bytes(r.Intn(256)))
		o.In("seed", seed)
		o.In("msg", msg)
		o.In("ctx", []byte(ctx))
		sk := ed448.NewKeyFromSeed(seed)
		pk := sk.Public().(ed448.PublicKey)
		o.Out("sk", sk)
		o.Out("pk", pk)
		s0 := ed448.Sign(sk, msg, ctx)
		s1 := ed448.SignPh(sk, msg, ctx)
		o.Out("sig", s0)
		o.Out("sigph", s1)
		o.OutBool("v", ed448.Verify(pk, msg, s0, ctx))
		o.OutBool("vph", ed448.VerifyPh(pk, msg, s1, ctx))
		o.OutBool("vcross", ed448.Verify(pk, msg, s1, ctx))
		bad := lib.Clone(s0)
		copy(bad[:56], fp448API.specials[r.Intn(len(fp448API.specials))])
		o.OutBool("v-edgeR", ed448.Verify(pk, msg, bad, ctx))
		bad = lib.Clone(s0)
		copy(bad[57:], r.EdgeBytes(57, 1))
		o.OutBool("v-edgeS", ed448.Verify(pk, msg, bad, ctx))
		bpk := ed448.PublicKey(r.EdgeBytes(57, 1))
		if r.Bool() {
			bpk[56] &= 0x80
		}
		o.In("bpk", bpk)
		o.OutBool("v-edgepk", ed448.Verify(bpk, msg, s0, ctx))
	}})
	return ks
}

func TestVerifTranscriptSig(t *testing.T) {
	lib.Mandatory("c14/Sig/verify-accept", "c14/Sig/verify-reject", "c14/Sig/hostile-pk-decoded", "c14/Sig/boundary-rho-keys")
	runArea(t, "Sig", sigKinds())
}
