//go:build verif

// C12 — field and scalar arithmetic equals integer arithmetic mod p for all
// inputs.  Black-box part: every exported field / scalar type is driven with
// edge-biased operand tuples under all aliasing patterns and each result is
// compared with math/big (ordinary operations as residues, canonicalising
// operations exactly).
package c12

import (
	"math/big"
	"testing"
	"unsafe"

	bf "github.com/cloudflare/circl/internal/zzverif/ref/bigfield"

	"github.com/cloudflare/circl/internal/zzverif/lib"
)

func TestMain(m *testing.M) { lib.Main(m) }

// nTuples is the number of operand tuples per field and op group for the
// assembly-backed byte-array fields; nTuplesGo the one for the pure-Go /
// math/big backed types (one back-end only, costlier oracle).
func nTuples() int   { return lib.Scale(20000, 2000000) }
func nTuplesGo() int { return lib.Scale(20000, 500000) }

const chunk = 256

// distinctEvery: every tuple is recorded as a distinct case in the quick
// tier; in the thorough tier one in eight is (the hash set would otherwise
// hold tens of millions of entries), all are counted as evaluations.
func recordCase(i int, nops int, parts ...[]byte) {
	if !lib.Thorough() || i%8 == 0 {
		lib.Distinct(parts...)
	}
	lib.CountN("evaluations", nops)
}

func viol(key, mon string, kv ...any) { lib.Violation("C12:"+key, mon, lib.D(kv...)) }

func hexBig(v *big.Int) string { return "0x" + v.Text(16) }

// ---------------------------------------------------------------- guarded operand memory (shared with the white-box files)

type gmem = bf.GMem
type gpool = bf.GPool

func newGPool(size int) *gpool { return bf.NewGPool(size) }

func ptr(b []byte) unsafe.Pointer { return bf.Ptr(b) }

func bin3(pat int, m *gmem, x, y, junk []byte, op func(z, x, y unsafe.Pointer)) (res, ye []byte, clobber bool) {
	return bf.Bin3B(pat, m, x, y, junk, op)
}

func un2(alias bool, m *gmem, x, junk []byte, op func(z, x unsafe.Pointer)) (res []byte, clobber bool) {
	return bf.Un2B(alias, m, x, junk, op)
}
