//go:build verif

package sum

import (
	"testing"

	"github.com/cloudflare/circl/internal/zzverif/lib"
)

func TestMain(m *testing.M) { lib.Main(m) }
