//go:build verif

package lib

import (
	"encoding/binary"
	"os"
	"sync/atomic"
	"syscall"
)

// Crash journal: before each monitored call the entry-point name and the input
// bytes are copied into a slot of an mmap'ed file ($VERIF_JOURNAL).  The file
// survives SIGSEGV, "fatal error" and SIGQUIT, so when a child dies the
// orchestrator can name the inputs that were in flight.
//
// Layout: nSlots slots of slotSize bytes: [1 busy][3 pad][4 entryLen][4 inLen]
// [4 storedLen][entry][input (truncated to fit)].

const (
	nSlots   = 64
	slotSize = 1 << 17
)

var (
	jmem  []byte
	jfree chan int
	jseq  uint64
)

func journalInit() {
	path := os.Getenv("VERIF_JOURNAL")
	if path == "" {
		return
	}
	f, err := os.OpenFile(path, os.O_RDWR|os.O_CREATE|os.O_TRUNC, 0o644)
	if err != nil {
		return
	}
	defer f.Close()
	if f.Truncate(nSlots*slotSize) != nil {
		return
	}
	m, err := syscall.Mmap(int(f.Fd()), 0, nSlots*slotSize, syscall.PROT_READ|syscall.PROT_WRITE, syscall.MAP_SHARED)
	if err != nil {
		return
	}
	jmem = m
	jfree = make(chan int, nSlots)
	for i := 0; i < nSlots; i++ {
		jfree <- i
	}
}

func journalBegin(entry string, in []byte) int {
	atomic.AddUint64(&jseq, 1)
	if jmem == nil {
		return -1
	}
	s := <-jfree
	b := jmem[s*slotSize : (s+1)*slotSize]
	if len(entry) > 200 {
		entry = entry[:200]
	}
	binary.LittleEndian.PutUint32(b[4:], uint32(len(entry)))
	binary.LittleEndian.PutUint32(b[8:], uint32(len(in)))
	n := copy(b[16+len(entry):], in)
	binary.LittleEndian.PutUint32(b[12:], uint32(n))
	copy(b[16:], entry)
	b[0] = 1
	return s
}

func journalEnd(s int) {
	if s < 0 {
		return
	}
	jmem[s*slotSize] = 0
	jfree <- s
}
