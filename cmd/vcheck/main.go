// vcheck builds the monitors of one property against /repo's working tree
// (Go -overlay, nothing is written to /repo), runs them as child processes
// under the configurations the property needs, collects their result files,
// crash journals and sanitizer reports, runs the offline checkers, filters
// through known_findings.jsonl and writes evidence/<ID>.json.
//
// exit 0: held on everything observed; 1: violation; 2: inconclusive.
package main

import (
	"bytes"
	"context"
	"encoding/binary"
	"encoding/hex"
	"encoding/json"
	"flag"
	"fmt"
	"os"
	"os/exec"
	"path/filepath"
	"regexp"
	"sort"
	"strconv"
	"strings"
	"sync"
	"syscall"
	"time"
)

type Unit struct {
	Name     string   `json:"name"`
	Pkg      string   `json:"pkg"`
	Run      string   `json:"run"`
	Batches  []string `json:"batches"`
	Quick    []string `json:"quick"`
	Thorough []string `json:"thorough"`
	TimeoutS int      `json:"timeout_s"`
	Env      []string `json:"env"`
	// Exclusive units run alone (race stress wants the machine).
	Exclusive bool `json:"exclusive"`
	// Repeat runs every (cfg,batch) this many times with different
	// VERIF_ROUND values (race reports vary from run to run).
	RepeatQuick    int `json:"repeat_quick"`
	RepeatThorough int `json:"repeat_thorough"`
}

type Spec struct {
	Property    string   `json:"property"`
	Units       []Unit   `json:"units"`
	Rule        string   `json:"rule"`
	Assumptions []string `json:"assumptions"`
	// Offline names extra offline checkers: "c14diff", "c08log".
	Offline []string `json:"offline"`
}

type Violation struct {
	Key     string         `json:"key"`
	Monitor string         `json:"monitor"`
	Detail  map[string]any `json:"detail"`
}

type Result struct {
	Binary     string           `json:"binary"`
	Cfg        string           `json:"cfg"`
	Counters   map[string]int64 `json:"counters"`
	Distinct   int              `json:"distinct"`
	Samples    map[string][]any `json:"samples"`
	Violations []Violation      `json:"violations"`
	VioCounts  map[string]int64 `json:"violation_counts"`
	Notes      []string         `json:"notes"`
	Mandatory  []string         `json:"mandatory"`
	Flags      map[string]any   `json:"flags"`
	Complete   bool             `json:"complete"`
}

type Known struct {
	Property string `json:"property"`
	Key      string `json:"key"`
	Status   string `json:"status"`
	Commit   string `json:"commit,omitempty"`
	What     string `json:"what"`
}

type cfgDef struct {
	build   string
	godebug string
}

var cfgs = map[string]cfgDef{
	"default": {"default", ""},
	"purego":  {"purego", ""},
	"noavx2":  {"default", "cpu.avx2=off"},
	"nobmi2":  {"default", "cpu.bmi2=off"},
	"noadx":   {"default", "cpu.adx=off"},
	"alloff":  {"default", "cpu.avx2=off,cpu.bmi2=off,cpu.adx=off"},
	"race":    {"race", ""},
	// the race detector over the portable back-ends the CPU switches select
	"race-alloff": {"race", "cpu.avx2=off,cpu.bmi2=off,cpu.adx=off"},
	"checkptr":    {"checkptr", ""},
	"asan":        {"asan", ""},
	"cover":       {"cover", ""},
	"fuzz":        {"fuzz", ""},
	"386":         {"386", ""},
	// the byte-wise sponge input/output routines every target other than
	// amd64 / 386 / ppc64le uses (internal/sha3/xor_generic.go), selected on
	// this machine through the repository's own `appengine` build tag
	"appengine": {"appengine", ""},
}

var (
	verifRoot = "/verif"
	repoRoot  = "/repo"
)

type job struct {
	unit   *Unit
	cfg    string
	batch  string
	round  int
	bin    string
	id     string
	res    *Result
	status string // ok | crashed | timeout | testfail
	tail   string
	inflt  []inflight
	wall   float64
	tier   string // overrides the run's tier when set (cover children run the quick case lists)
}

type inflight struct {
	Entry string
	Input []byte
	Full  int
}

func main() {
	tier := flag.String("tier", "", "quick|thorough (default $VERIF_TIER or quick)")
	seed := flag.Int64("seed", -1, "seed (default $VERIF_SEED or 1)")
	replay := flag.String("replay", "", "replay descriptor")
	only := flag.String("only", "", "only this unit name")
	onlyCfg := flag.String("cfg", "", "only this configuration")
	par := flag.Int("par", 3, "children in parallel")
	noKnown := flag.Bool("no-known", false, "ignore known_findings.jsonl (report everything as VIOLATION)")
	coverF := flag.Bool("cover", false, "also build every unit with -cover -coverpkg=<anchor packages>, run it once and account statement coverage of the anchor files in the evidence (implied by --tier thorough unless VERIF_NOCOVER=1)")
	flag.Usage = func() { fmt.Fprintln(os.Stderr, "usage: vcheck [flags] <ID>"); flag.PrintDefaults() }
	// allow "vcheck C01 --tier quick" as well as flags first
	args := os.Args[1:]
	var id string
	var rest []string
	for _, a := range args {
		if id == "" && !strings.HasPrefix(a, "-") && regexp.MustCompile(`^C[0-9]+$`).MatchString(a) {
			id = a
			continue
		}
		rest = append(rest, a)
	}
	flag.CommandLine.Parse(rest)
	if v := os.Getenv("VERIF_ROOT"); v != "" {
		verifRoot = v
	}
	if v := os.Getenv("VERIF_REPO"); v != "" {
		repoRoot = v
	}
	if *tier == "" {
		*tier = os.Getenv("VERIF_TIER")
	}
	if *tier != "thorough" {
		*tier = "quick"
	}
	if *seed < 0 {
		*seed = 1
		if v := os.Getenv("VERIF_SEED"); v != "" {
			if n, err := strconv.ParseInt(v, 10, 64); err == nil {
				*seed = n
			}
		}
	}
	var rp *Replay
	if *replay != "" {
		b, err := os.ReadFile(*replay)
		if err != nil {
			fatal(2, "cannot read replay file: %v", err)
		}
		rp = &Replay{}
		if err := json.Unmarshal(b, rp); err != nil {
			fatal(2, "bad replay file: %v", err)
		}
		id = rp.Property
		*tier = rp.Tier
		*seed = rp.Seed
		*only = rp.Unit
		*onlyCfg = rp.Cfg
	}
	if id == "" {
		flag.Usage()
		os.Exit(2)
	}
	ignoreKnown = *noKnown
	withCover = *coverF || (*tier == "thorough" && os.Getenv("VERIF_NOCOVER") == "" && *replay == "" && *onlyCfg == "")
	os.Exit(run(id, *tier, *seed, rp, *only, *onlyCfg, *par))
}

type Replay struct {
	Property string         `json:"property"`
	Key      string         `json:"key"`
	Unit     string         `json:"unit"`
	Cfg      string         `json:"cfg"`
	Batch    string         `json:"batch"`
	Seed     int64          `json:"seed"`
	Tier     string         `json:"tier"`
	Monitor  string         `json:"monitor"`
	Detail   map[string]any `json:"detail"`
}

func fatal(code int, f string, a ...any) {
	fmt.Printf("INCONCLUSIVE "+f+"\n", a...)
	os.Exit(code)
}

func goEnv() []string {
	env := os.Environ()
	env = append(env, "GOFLAGS=-mod=mod", "GOPROXY=off", "GOSUMDB=off", "GOTOOLCHAIN=local", "GONOSUMDB=*", "GONOSUMCHECK=1", "GOFLAGS=-mod=mod")
	return env
}

func run(id, tier string, seed int64, rp *Replay, only, onlyCfg string, par int) int {
	t0 := time.Now()
	hdir := filepath.Join(verifRoot, "h", strings.ToLower(id))
	sb, err := os.ReadFile(filepath.Join(hdir, "units.json"))
	if err != nil {
		fatal(2, "no units.json for %s: %v", id, err)
	}
	var spec Spec
	if err := json.Unmarshal(sb, &spec); err != nil {
		fatal(2, "bad units.json: %v", err)
	}
	bdir := filepath.Join(verifRoot, "build", id)
	evDir := filepath.Join(verifRoot, "evidence")
	if repoRoot != "/repo" {
		// a scratch copy of the repository (mutant / seeded-defect runs):
		// separate build directory, and the evidence of /repo is left alone
		bdir = filepath.Join(verifRoot, "build", id+".alt-"+filepath.Base(repoRoot))
		evDir = filepath.Join(bdir, "evidence")
	}
	os.RemoveAll(filepath.Join(bdir, "run"))
	os.MkdirAll(filepath.Join(bdir, "run"), 0o755)
	// modfile copy
	for _, f := range []string{"go.mod", "go.sum"} {
		b, err := os.ReadFile(filepath.Join(repoRoot, f))
		if err != nil {
			fatal(2, "read %s: %v", f, err)
		}
		os.WriteFile(filepath.Join(bdir, f), b, 0o644)
	}
	overlay := filepath.Join(bdir, "overlay.json")
	if err := writeOverlay(overlay); err != nil {
		fatal(2, "overlay: %v", err)
	}

	// ---- plan jobs
	var jobs []*job
	builds := map[string]string{} // unitname|build -> bin
	for ui := range spec.Units {
		u := &spec.Units[ui]
		if only != "" && u.Name != only {
			continue
		}
		cl := u.Quick
		rep := u.RepeatQuick
		if tier == "thorough" {
			cl = u.Thorough
			rep = u.RepeatThorough
			if len(cl) == 0 {
				cl = u.Quick
			}
		}
		if rep < 1 {
			rep = 1
		}
		batches := u.Batches
		if len(batches) == 0 {
			batches = []string{u.Run}
		}
		if withCover && rp == nil {
			has := false
			for _, c := range cl {
				has = has || c == "cover"
			}
			if !has {
				cl = append(append([]string{}, cl...), "cover")
			}
		}
		for _, c := range cl {
			// "<cfg>:quick" in a thorough list: that configuration runs the quick
			// case lists also in the thorough tier (slow targets such as 386)
			forced := ""
			if strings.HasSuffix(c, ":quick") {
				c, forced = strings.TrimSuffix(c, ":quick"), "quick"
			}
			if onlyCfg != "" && c != onlyCfg {
				continue
			}
			def, ok := cfgs[c]
			if !ok {
				fatal(2, "unknown cfg %q", c)
			}
			bk := u.Name + "|" + def.build
			bin := filepath.Join(bdir, u.Name+"."+def.build+".test")
			builds[bk] = bin
			for bi, b := range batches {
				if rp != nil && rp.Batch != "" && rp.Batch != b {
					continue
				}
				for r := 0; r < rep; r++ {
					if c == "cover" && r > 0 {
						break
					}
					jb := &job{unit: u, cfg: c, batch: b, round: r, bin: bin,
						id: fmt.Sprintf("%s.%s.b%d.r%d", u.Name, c, bi, r)}
					if c == "cover" {
						jb.tier = "quick"
					}
					if forced != "" {
						jb.tier = forced
					}
					jobs = append(jobs, jb)
				}
			}
		}
	}
	if len(jobs) == 0 {
		fatal(2, "nothing to run")
	}

	// ---- build
	if withCover {
		coverPkgList = coverPkgs(id)
	}
	type bres struct {
		key string
		err error
		out string
	}
	var bkeys []string
	for k := range builds {
		bkeys = append(bkeys, k)
	}
	sort.Strings(bkeys)
	bch := make(chan bres, len(bkeys))
	sem := make(chan struct{}, 4)
	for _, k := range bkeys {
		k := k
		go func() {
			sem <- struct{}{}
			defer func() { <-sem }()
			parts := strings.SplitN(k, "|", 2)
			var u *Unit
			for i := range spec.Units {
				if spec.Units[i].Name == parts[0] {
					u = &spec.Units[i]
				}
			}
			out, err := build(u, parts[1], builds[k], bdir, overlay)
			bch <- bres{k, err, out}
		}()
	}
	// A unit whose monitors do not compile against this tree (a white-box
	// monitor calling an internal function whose signature changed) is reported
	// as inconclusive; the other units still run, and what they find counts.
	failedBuild := map[string]bool{}
	var buildInconclusive []string
	for range bkeys {
		r := <-bch
		if r.err != nil {
			os.WriteFile(filepath.Join(bdir, "run", "build-failure.txt"), []byte(r.out), 0o644)
			fmt.Printf("%s\n", tailStr(r.out, 3000))
			failedBuild[builds[r.key]] = true
			buildInconclusive = append(buildInconclusive, fmt.Sprintf("build failed for %s (harness does not compile against this tree)", r.key))
		}
	}
	if len(failedBuild) > 0 {
		var kept []*job
		for _, j := range jobs {
			if !failedBuild[j.bin] {
				kept = append(kept, j)
			}
		}
		jobs = kept
		if len(jobs) == 0 {
			fatal(2, "%s", strings.Join(buildInconclusive, "; "))
		}
	}
	buildWall := time.Since(t0).Seconds()

	// ---- run
	var wg sync.WaitGroup
	psem := make(chan struct{}, par)
	var exmu sync.RWMutex
	for _, j := range jobs {
		j := j
		wg.Add(1)
		go func() {
			defer wg.Done()
			if j.unit.Exclusive {
				exmu.Lock()
				defer exmu.Unlock()
			} else {
				exmu.RLock()
				defer exmu.RUnlock()
				psem <- struct{}{}
				defer func() { <-psem }()
			}
			runJob(j, bdir, tier, seed)
		}()
	}
	wg.Wait()

	// ---- collect
	known := loadKnown()
	type vrec struct {
		v   Violation
		job *job
		n   int64
	}
	vioByKey := map[string]*vrec{}
	var keys []string
	addV := func(v Violation, j *job, n int64) {
		if r, ok := vioByKey[v.Key]; ok {
			r.n += n
			return
		}
		vioByKey[v.Key] = &vrec{v, j, n}
		keys = append(keys, v.Key)
	}
	inconclusive := append([]string{}, buildInconclusive...)
	evalByCfg := map[string]int64{}
	distByCfg := map[string]int64{}
	countersByCfg := map[string]map[string]int64{}
	samples := map[string][]any{}
	flagsByCfg := map[string]map[string]any{}
	var notes []string
	mandatory := map[string]bool{}
	totals := map[string]int64{}
	raceReports := 0
	for _, j := range jobs {
		if j.res != nil {
			r := j.res
			if countersByCfg[j.cfg] == nil {
				countersByCfg[j.cfg] = map[string]int64{}
				flagsByCfg[j.cfg] = map[string]any{}
			}
			for k, v := range r.Counters {
				countersByCfg[j.cfg][k] += v
				totals[k] += v
			}
			for k, v := range r.Flags {
				flagsByCfg[j.cfg][k] = v
			}
			evalByCfg[j.cfg] += r.Counters["evaluations"]
			if j.round == 0 {
				distByCfg[j.cfg] += int64(r.Distinct)
			}
			for m, ss := range r.Samples {
				for _, s := range ss {
					if len(samples[m]) < 2 {
						samples[m] = append(samples[m], s)
					}
				}
			}
			for _, n := range r.Notes {
				if len(notes) < 40 {
					notes = append(notes, n)
				}
			}
			for _, m := range r.Mandatory {
				mandatory[m] = true
			}
			for _, v := range r.Violations {
				addV(v, j, 0)
			}
			for k, n := range r.VioCounts {
				if r, ok := vioByKey[k]; ok {
					r.n += n
				}
			}
		}
		switch j.status {
		case "ok":
		case "crashed":
			if len(j.inflt) == 0 {
				addV(Violation{Key: id + ":crash:" + j.unit.Name + ":no-journal", Monitor: j.batch,
					Detail: map[string]any{"stderr_tail": j.tail, "cfg": j.cfg}}, j, 1)
			}
			for _, f := range j.inflt {
				addV(Violation{Key: id + ":crash:" + f.Entry, Monitor: j.batch,
					Detail: map[string]any{"entry": f.Entry, "input": hex.EncodeToString(f.Input), "input_len": f.Full,
						"stderr_tail": j.tail, "cfg": j.cfg, "class": crashClass(j.tail)}}, j, 1)
			}
		case "timeout":
			inconclusive = append(inconclusive, fmt.Sprintf("watchdog expired for %s (in flight: %s)", j.id, inflightNames(j.inflt)))
		case "fuzzfail":
			vs, note := fuzzCrashers(j, bdir, id)
			for _, v := range vs {
				addV(v, j, 1)
			}
			if len(vs) == 0 {
				// the engine stopped without a reproducible failing input (worker
				// killed, engine error): recorded, neither a violation nor a verdict
				notes = append(notes, fmt.Sprintf("fuzz engine stopped in %s without a reproducible failing input: %s", j.id, note))
			}
		case "testfail":
			inconclusive = append(inconclusive, fmt.Sprintf("harness self-check failed in %s: %s", j.id, tailStr(j.tail, 600)))
		default:
			inconclusive = append(inconclusive, fmt.Sprintf("%s: %s", j.id, j.status))
		}
		// race / asan logs
		if cfgs[j.cfg].build == "race" {
			reps := parseRaceLogs(filepath.Join(bdir, "run", j.id+".race"))
			raceReports += len(reps)
			for _, rr := range reps {
				addV(Violation{Key: id + ":race:" + rr.key, Monitor: j.batch,
					Detail: map[string]any{"report": tailStr(rr.text, 6000), "cfg": j.cfg}}, j, 1)
			}
		}
	}
	for m := range mandatory {
		if totals[m] == 0 {
			inconclusive = append(inconclusive, "mandatory counter is zero: "+m)
		}
	}

	// ---- offline checkers
	for _, off := range spec.Offline {
		switch off {
		case "c14diff":
			for _, v := range c14Diff(jobs, bdir, id) {
				addV(v.v, v.j, 1)
			}
		}
	}

	// ---- coverage accounting
	var coverRep map[string]any
	if withCover {
		var profs []string
		for _, j := range jobs {
			if j.cfg == "cover" {
				profs = append(profs, filepath.Join(bdir, "run", j.id+".cover"))
			}
		}
		var none bool
		coverRep, none = coverReport(id, profs)
		if none {
			inconclusive = append(inconclusive, "coverage pass: no statement of any anchor file was executed")
		}
	}

	// ---- verdict
	sort.Strings(keys)
	os.MkdirAll(filepath.Join(evDir, "replay"), 0o755)
	// remove old replay files of this property
	old, _ := filepath.Glob(filepath.Join(evDir, "replay", id+"-*.json"))
	for _, f := range old {
		os.Remove(f)
	}
	nviol := 0
	nknown := 0
	replayHit := false
	var vioSummaries []map[string]any
	for i, k := range keys {
		r := vioByKey[k]
		if rp != nil {
			if k == rp.Key {
				replayHit = true
			}
		}
		if kn, ok := known[id+"\x00"+k]; ok && kn.Status == "known" {
			fmt.Printf("KNOWN-FINDING: property=%s %s — %s\n", id, k, kn.What)
			nknown++
			continue
		}
		path := filepath.Join(evDir, "replay", fmt.Sprintf("%s-%d.json", id, i))
		rd := Replay{Property: id, Key: k, Unit: r.job.unit.Name, Cfg: r.job.cfg, Batch: r.job.batch, Seed: seed, Tier: tier, Monitor: r.v.Monitor, Detail: r.v.Detail}
		b, _ := json.MarshalIndent(rd, "", " ")
		os.WriteFile(path, b, 0o644)
		fmt.Printf("VIOLATION property=%s replay=%s key=%s count=%d\n", id, path, k, r.n)
		if len(vioSummaries) < 50 {
			vioSummaries = append(vioSummaries, map[string]any{"key": k, "count": r.n, "replay": path})
		}
		nviol++
	}
	if rp != nil {
		if replayHit {
			fmt.Printf("REPLAY reproduced key=%s\n", rp.Key)
			return 1
		}
		fmt.Printf("REPLAY did not reproduce key=%s\n", rp.Key)
		if nviol > 0 {
			return 1
		}
		return 0
	}

	// ---- evidence
	var evals, dist int64
	for c, v := range evalByCfg {
		evals += v
		if distByCfg[c] > dist {
			dist = distByCfg[c]
		}
	}
	var sampleList []any
	var mons []string
	for m := range samples {
		mons = append(mons, m)
	}
	sort.Strings(mons)
	for _, m := range mons {
		for _, s := range samples[m] {
			if len(sampleList) < 24 {
				sampleList = append(sampleList, map[string]any{"monitor": m, "case": s})
			}
		}
	}
	var jobSumm []map[string]any
	for _, j := range jobs {
		jobSumm = append(jobSumm, map[string]any{"id": j.id, "status": j.status, "wall_s": round1(j.wall)})
	}
	cov := map[string]any{
		"evaluations":         evals,
		"distinct_nontrivial": dist,
		"rule":                spec.Rule + "  [evaluations = monitored executions summed over all configurations; distinct_nontrivial = number of distinct case hashes recorded by the monitors in the configuration that saw most (configurations replay the same seeded cases, so they are not added up)]",
		"samples":             sampleList,
		"configurations":      countersByCfg,
		"dispatch_flags":      flagsByCfg,
		"children":            jobSumm,
		"observations":        notes,
		"race_reports_raw":    raceReports,
		"known_findings_seen": nknown,
		"violations_reported": vioSummaries,
		"inconclusive":        inconclusive,
		"build_wall_s":        round1(buildWall),
	}
	if coverRep != nil {
		cov["anchor_coverage"] = coverRep
	}
	ev := map[string]any{
		"property_id": id, "tier": tier, "seed": seed, "level": "exploration",
		"coverage": cov, "assumptions": spec.Assumptions,
		"wall_s": round1(time.Since(t0).Seconds()), "violations": nviol,
	}
	eb, _ := json.MarshalIndent(ev, "", " ")
	os.WriteFile(filepath.Join(evDir, id+".json"), eb, 0o644)

	if nviol > 0 {
		return 1
	}
	if len(inconclusive) > 0 {
		for _, s := range inconclusive {
			fmt.Printf("INCONCLUSIVE %s\n", s)
		}
		return 2
	}
	fmt.Printf("OK property=%s tier=%s seed=%d evaluations=%d distinct=%d known_findings=%d wall=%.0fs\n", id, tier, seed, evals, dist, nknown, time.Since(t0).Seconds())
	return 0
}

func round1(f float64) float64 { return float64(int(f*10)) / 10 }

func inflightNames(fs []inflight) string {
	var s []string
	for _, f := range fs {
		s = append(s, f.Entry)
	}
	return strings.Join(s, ",")
}

func crashClass(tail string) string {
	switch {
	case strings.Contains(tail, "checkptr"):
		return "checkptr"
	case strings.Contains(tail, "AddressSanitizer"):
		return "asan"
	case strings.Contains(tail, "stack overflow"), strings.Contains(tail, "goroutine stack exceeds"):
		return "stack-overflow"
	case strings.Contains(tail, "concurrent map"):
		return "concurrent-map"
	case strings.Contains(tail, "out of memory"):
		return "oom"
	}
	return "fatal"
}

func tailStr(s string, n int) string {
	if len(s) > n {
		return s[len(s)-n:]
	}
	return s
}

func writeOverlay(path string) error {
	repl := map[string]string{}
	h := filepath.Join(verifRoot, "h")
	err := filepath.Walk(h, func(p string, info os.FileInfo, err error) error {
		if err != nil {
			return err
		}
		if info.IsDir() || !(strings.HasSuffix(p, ".go") || strings.HasSuffix(p, ".s")) {
			return nil
		}
		rel, _ := filepath.Rel(h, p)
		var dst string
		if strings.HasPrefix(rel, "wb"+string(filepath.Separator)) {
			dst = filepath.Join(repoRoot, strings.TrimPrefix(rel, "wb"+string(filepath.Separator)))
		} else {
			dst = filepath.Join(repoRoot, "internal", "zzverif", rel)
		}
		repl[dst] = p
		return nil
	})
	if err != nil {
		return err
	}
	b, _ := json.MarshalIndent(map[string]any{"Replace": repl}, "", " ")
	return os.WriteFile(path, b, 0o644)
}

func build(u *Unit, kind, bin, bdir, overlay string) (string, error) {
	args := []string{"test", "-c", "-vet=off", "-overlay", overlay, "-modfile", filepath.Join(bdir, "go.mod"), "-o", bin}
	tags := "verif"
	env := goEnv()
	switch kind {
	case "purego":
		tags += ",purego"
	case "appengine":
		tags += ",appengine"
	case "race":
		args = append(args, "-race")
	case "checkptr":
		args = append(args, "-gcflags=all=-d=checkptr")
	case "asan":
		args = append(args, "-asan")
	case "fuzz":
		args = append(args, "-fuzz", "FuzzVerif")
	case "386":
		// the 32-bit target (uint is 32 bits wide, no assembly back-ends); the
		// binary runs natively on the amd64 kernel
		env = append(env, "GOARCH=386", "CGO_ENABLED=0")
	case "cover":
		cp := "./..."
		if len(coverPkgList) > 0 {
			cp = strings.Join(coverPkgList, ",")
		}
		args = append(args, "-cover", "-coverpkg="+cp)
	}
	args = append(args, "-tags", tags, "./"+u.Pkg)
	cmd := exec.Command("go", args...)
	cmd.Dir = repoRoot
	cmd.Env = env
	out, err := cmd.CombinedOutput()
	return string(out), err
}

func runJob(j *job, bdir, tier string, seed int64) {
	t0 := time.Now()
	if j.tier != "" {
		tier = j.tier
	}
	rdir := filepath.Join(bdir, "run")
	resPath := filepath.Join(rdir, j.id+".result.json")
	jpath := filepath.Join(rdir, j.id+".journal")
	logPath := filepath.Join(rdir, j.id+".log")
	to := j.unit.TimeoutS
	if to == 0 {
		to = 900
	}
	if tier == "thorough" {
		to *= 8
	}
	ctx, cancel := context.WithCancel(context.Background())
	defer cancel()
	args := []string{"-test.run", j.batch, "-test.timeout", "0", "-test.count", "1"}
	if j.cfg == "fuzz" {
		// native fuzzing: a fixed number of executions (never a time budget)
		n := os.Getenv("VERIF_FUZZ_EXECS")
		if n == "" {
			n = "400000"
		}
		args = []string{"-test.run", "^$", "-test.fuzz", "^" + j.batch + "$", "-test.fuzztime", n + "x",
			"-test.fuzzcachedir", filepath.Join(rdir, j.id+".fuzzcache"), "-test.timeout", "0", "-test.parallel", "16"}
	}
	if cfgs[j.cfg].build == "cover" {
		args = append(args, "-test.coverprofile", filepath.Join(rdir, j.id+".cover"))
	}
	cmd := exec.CommandContext(ctx, j.bin, args...)
	cmd.Dir = rdir
	env := os.Environ()
	env = append(env,
		"VERIF_SEED="+strconv.FormatInt(seed, 10), "VERIF_TIER="+tier, "VERIF_CFG="+j.cfg,
		"VERIF_RESULT="+resPath, "VERIF_JOURNAL="+jpath, "VERIF_ROOT="+verifRoot, "VERIF_REPO="+repoRoot,
		"VERIF_OUT="+rdir, "VERIF_JOB="+j.id, "VERIF_ROUND="+strconv.Itoa(j.round),
		"GOMAXPROCS=16", "GOTRACEBACK=all")
	if g := cfgs[j.cfg].godebug; g != "" {
		env = append(env, "GODEBUG="+g)
	}
	if cfgs[j.cfg].build == "race" {
		env = append(env, "GORACE=halt_on_error=0 history_size=3 log_path="+filepath.Join(rdir, j.id+".race"))
	}
	if j.cfg == "asan" {
		env = append(env, "ASAN_OPTIONS=halt_on_error=1:abort_on_error=1:detect_leaks=0")
	}
	env = append(env, j.unit.Env...)
	cmd.Env = env
	lf, _ := os.Create(logPath)
	cmd.Stdout = lf
	cmd.Stderr = lf
	cmd.SysProcAttr = &syscall.SysProcAttr{Setpgid: true}
	timedOut := false
	err := cmd.Start()
	if err == nil {
		done := make(chan error, 1)
		go func() { done <- cmd.Wait() }()
		select {
		case err = <-done:
		case <-time.After(time.Duration(to) * time.Second):
			timedOut = true
			syscall.Kill(-cmd.Process.Pid, syscall.SIGQUIT)
			select {
			case err = <-done:
			case <-time.After(20 * time.Second):
				syscall.Kill(-cmd.Process.Pid, syscall.SIGKILL)
				err = <-done
			}
		}
	}
	lf.Close()
	j.wall = time.Since(t0).Seconds()
	lb, _ := os.ReadFile(logPath)
	j.tail = tailStr(string(lb), 4000)
	if rb, e := os.ReadFile(resPath); e == nil {
		var r Result
		if json.Unmarshal(rb, &r) == nil {
			j.res = &r
		}
	}
	if j.cfg == "fuzz" && !timedOut {
		j.status = "ok"
		if err != nil {
			j.status = "fuzzfail"
		}
		return
	}
	switch {
	case timedOut:
		j.status = "timeout"
		j.inflt = readJournal(jpath)
	case err == nil && j.res != nil && j.res.Complete:
		j.status = "ok"
	case j.res != nil && j.res.Complete:
		// test binary finished normally but some test failed: harness self-check
		j.status = "testfail"
	default:
		j.status = "crashed"
		j.inflt = readJournal(jpath)
	}
}

const (
	nSlots   = 64
	slotSize = 1 << 17
)

func readJournal(path string) []inflight {
	b, err := os.ReadFile(path)
	if err != nil || len(b) < nSlots*slotSize {
		return nil
	}
	var out []inflight
	for s := 0; s < nSlots; s++ {
		sl := b[s*slotSize : (s+1)*slotSize]
		if sl[0] != 1 {
			continue
		}
		el := int(binary.LittleEndian.Uint32(sl[4:]))
		il := int(binary.LittleEndian.Uint32(sl[8:]))
		st := int(binary.LittleEndian.Uint32(sl[12:]))
		if 16+el+st > len(sl) {
			continue
		}
		out = append(out, inflight{Entry: string(sl[16 : 16+el]), Input: append([]byte(nil), sl[16+el:16+el+st]...), Full: il})
	}
	return out
}

var ignoreKnown bool

var (
	withCover    bool
	coverPkgList []string
)

func loadKnown() map[string]Known {
	m := map[string]Known{}
	if ignoreKnown {
		return m
	}
	b, err := os.ReadFile(filepath.Join(verifRoot, "known_findings.jsonl"))
	if err != nil {
		return m
	}
	for _, l := range bytes.Split(b, []byte("\n")) {
		l = bytes.TrimSpace(l)
		if len(l) == 0 || l[0] != '{' {
			continue
		}
		var k Known
		if json.Unmarshal(l, &k) == nil {
			m[k.Property+"\x00"+k.Key] = k
		}
	}
	return m
}

// ---------------------------------------------------------------- race logs

type raceReport struct {
	key  string
	text string
}

var frameFile = regexp.MustCompile(`^\s+(/\S+\.(?:go|s)):\d+`)

func parseRaceLogs(prefix string) []raceReport {
	files, _ := filepath.Glob(prefix + ".*")
	seen := map[string]bool{}
	var out []raceReport
	for _, f := range files {
		b, err := os.ReadFile(f)
		if err != nil {
			continue
		}
		blocks := strings.Split(string(b), "==================")
		for _, blk := range blocks {
			if !strings.Contains(blk, "WARNING: DATA RACE") {
				continue
			}
			k := raceKey(blk)
			if seen[k] {
				continue
			}
			seen[k] = true
			out = append(out, raceReport{k, blk})
		}
	}
	return out
}

// raceKey: for each of the two access stacks (the first two stacks of the
// report) take the innermost frame under the repo root that is not harness
// code, as "relative/file.go:func"; sort the pair.
func raceKey(blk string) string {
	lines := strings.Split(blk, "\n")
	var stacks [][]string // each: list of "file\x00func"
	var cur []string
	inStack := false
	var lastFunc string
	flush := func() {
		if inStack {
			stacks = append(stacks, cur)
		}
		cur = nil
		inStack = false
	}
	for _, l := range lines {
		t := strings.TrimSpace(l)
		if strings.HasSuffix(t, ":") && (strings.Contains(t, "by goroutine") || strings.Contains(t, "by main goroutine") || strings.HasPrefix(t, "Goroutine")) {
			flush()
			inStack = true
			continue
		}
		if t == "" {
			flush()
			continue
		}
		if !inStack {
			continue
		}
		if m := frameFile.FindStringSubmatch(l); m != nil {
			cur = append(cur, m[1]+"\x00"+lastFunc)
		} else {
			lastFunc = t
		}
	}
	flush()
	pick := func(st []string) string {
		for _, fr := range st {
			p := strings.SplitN(fr, "\x00", 2)
			file, fn := p[0], p[1]
			if !strings.HasPrefix(file, repoRoot+"/") {
				continue
			}
			if strings.Contains(file, "/internal/zzverif/") || strings.Contains(file, "zz_verif") {
				continue
			}
			rel := strings.TrimPrefix(file, repoRoot+"/")
			// function name: strip package path prefix and arguments
			if i := strings.Index(fn, "("); i > 0 && !strings.HasPrefix(fn[i:], "(*") {
				fn = fn[:i]
			}
			fn = strings.TrimPrefix(fn, "github.com/cloudflare/circl/")
			if i := strings.Index(fn, "[go.shape"); i > 0 {
				fn = fn[:i]
			}
			if i := strings.LastIndex(fn, "()"); i > 0 {
				fn = fn[:i]
			}
			return rel + ":" + fn
		}
		return "?"
	}
	var ks []string
	for i := 0; i < len(stacks) && i < 2; i++ {
		ks = append(ks, pick(stacks[i]))
	}
	sort.Strings(ks)
	return strings.Join(ks, "|")
}

// ---------------------------------------------------------------- C14 offline diff

type vj struct {
	v Violation
	j *job
}

// c14Diff compares the transcript logs the c14 monitor leaves in
// run/<jobid>.transcript (one line per op: "<index> <op> <sha256>") across
// configurations, batch by batch.
func c14Diff(jobs []*job, bdir, id string) []vj {
	type tl struct {
		j     *job
		lines []string
	}
	byBatch := map[string][]tl{}
	for _, j := range jobs {
		if cfgs[j.cfg].build == "cover" || j.tier != "" {
			// the coverage children run the quick case lists whatever the tier:
			// their transcripts are not comparable line by line (accounting only)
			continue
		}
		b, err := os.ReadFile(filepath.Join(bdir, "run", j.id+".transcript"))
		if err != nil {
			continue
		}
		ls := strings.Split(strings.TrimSpace(string(b)), "\n")
		byBatch[j.batch] = append(byBatch[j.batch], tl{j, ls})
	}
	var out []vj
	for batch, ts := range byBatch {
		if len(ts) < 2 {
			continue
		}
		ref := ts[0]
		for _, o := range ts[1:] {
			n := len(ref.lines)
			if len(o.lines) < n {
				n = len(o.lines)
			}
			reported := map[string]bool{}
			for i := 0; i < n; i++ {
				if ref.lines[i] == o.lines[i] {
					continue
				}
				fa := strings.Fields(ref.lines[i])
				fb := strings.Fields(o.lines[i])
				op := "?"
				if len(fa) > 1 {
					op = fa[1]
				}
				if len(fb) > 1 && len(fa) > 1 && fa[1] != fb[1] {
					op = fa[1] + "/" + fb[1]
				}
				if reported[op] {
					continue
				}
				reported[op] = true
				out = append(out, vj{Violation{Key: id + ":diff:" + op, Monitor: batch,
					Detail: map[string]any{"index": i, "cfg_a": ref.j.cfg, "line_a": ref.lines[i], "cfg_b": o.j.cfg, "line_b": o.lines[i]}}, o.j})
			}
			if len(ref.lines) != len(o.lines) {
				out = append(out, vj{Violation{Key: id + ":diff:transcript-length", Monitor: batch,
					Detail: map[string]any{"cfg_a": ref.j.cfg, "len_a": len(ref.lines), "cfg_b": o.j.cfg, "len_b": len(o.lines)}}, o.j})
			}
		}
	}
	return out
}

// ---------------------------------------------------------------- native fuzzing

// fuzzCrashers reads the failing inputs the fuzz engine wrote to
// run/testdata/fuzz/<target>/, re-runs each one alone (the compiled binary
// executes the files of that directory as regression seeds) and returns a
// violation per input that fails again.
func fuzzCrashers(j *job, bdir, id string) ([]Violation, string) {
	rdir := filepath.Join(bdir, "run")
	dir := filepath.Join(rdir, "testdata", "fuzz", j.batch)
	files, _ := filepath.Glob(filepath.Join(dir, "*"))
	if len(files) == 0 {
		return nil, tailStr(j.tail, 400)
	}
	var names []string
	if b, err := os.ReadFile(filepath.Join(rdir, "fuzz-entries.json")); err == nil {
		_ = json.Unmarshal(b, &names)
	}
	var out []Violation
	for _, f := range files {
		b, err := os.ReadFile(f)
		if err != nil {
			continue
		}
		sel, data := parseFuzzFile(string(b))
		entry := "?"
		if len(names) > 0 && sel >= 0 {
			entry = names[sel%len(names)]
		}
		cmd := exec.Command(j.bin, "-test.run", "^"+j.batch+"$/"+filepath.Base(f), "-test.timeout", "120s")
		cmd.Dir = rdir
		cmd.Env = append(os.Environ(), "VERIF_OUT="+rdir, "VERIF_ROOT="+verifRoot, "VERIF_REPO="+repoRoot, "VERIF_TIER=thorough", "VERIF_SEED=1",
			"VERIF_RESULT="+filepath.Join(rdir, j.id+".replay.result.json"), "VERIF_JOURNAL="+filepath.Join(rdir, j.id+".replay.journal"))
		ob, rerr := cmd.CombinedOutput()
		if rerr == nil || !strings.Contains(string(ob), "panic") {
			continue // does not fail again on its own: not reported
		}
		cls := "panic"
		switch {
		case strings.Contains(string(ob), "nil pointer"):
			cls = "nil-deref"
		case strings.Contains(string(ob), "out of range"):
			cls = "index-out-of-range"
		case strings.Contains(string(ob), "divide by zero"):
			cls = "div-by-zero"
		}
		out = append(out, Violation{Key: id + ":panic:" + entry + ":" + cls, Monitor: j.batch,
			Detail: map[string]any{"entry": entry, "input": hex.EncodeToString(data), "input_len": len(data), "found_by": "go native fuzzing (minimised by the engine)",
				"corpus_file": f, "replay_output": tailStr(string(ob), 3000), "cfg": j.cfg}})
	}
	return out, "failing inputs did not fail again"
}

// parseFuzzFile reads the "go test fuzz v1" encoding of (uint16, []byte).
func parseFuzzFile(s string) (int, []byte) {
	sel := -1
	var data []byte
	for _, l := range strings.Split(s, "\n") {
		l = strings.TrimSpace(l)
		switch {
		case strings.HasPrefix(l, "uint16(") && strings.HasSuffix(l, ")"):
			if n, err := strconv.ParseInt(l[7:len(l)-1], 0, 32); err == nil {
				sel = int(n)
			}
		case strings.HasPrefix(l, "[]byte(") && strings.HasSuffix(l, ")"):
			if q, err := strconv.Unquote(l[7 : len(l)-1]); err == nil {
				data = []byte(q)
			}
		}
	}
	return sel, data
}
