//go:build verif

package c17

import (
	"fmt"
	"math/big"
	"testing"

	"github.com/cloudflare/circl/group"
	"github.com/cloudflare/circl/internal/zzverif/lib"
	"github.com/cloudflare/circl/math/polynomial"
)

const monPoly = "TestVerifPolynomial"

func hexList(xs []*big.Int) string {
	s := ""
	for i, x := range xs {
		if i > 0 {
			s += ","
		}
		s += x.Text(16)
	}
	return s
}

// TestVerifPolynomial: polynomial.Evaluate / Degree / Coefficient and
// LagrangePolynomial.Evaluate / LagrangeBase against the big-int model at
// edge-biased points.
func TestVerifPolynomial(t *testing.T) {
	lib.Mandatory("poly:evaluate", "poly:lagrange-evaluate", "poly:lagrange-base", "poly:eval-at-node", "poly:eval-at-zero",
		"poly:zero-polynomial", "poly:trailing-zero-coefficients", "poly:lagrange-duplicate-refused")
	Gs := groups()
	n := lib.Scale(300, 12000)
	lib.Par(len(Gs)*n, func(i int) {
		G := Gs[i%len(Gs)]
		polyOne(G, i/len(Gs))
	})
}

func polyViol(G grp, class, entry string, kv ...any) {
	d := lib.D(kv...)
	d["group"] = G.name
	lib.Violation("C17:"+class+":"+entry, monPoly, d)
}

func polyOne(G grp, idx int) {
	q := G.order
	r := lib.NewRng("c17/poly/"+G.name, idx)
	// ---- polynomial basis
	deg := r.Intn(22) - 1 // -1 .. 20
	if idx%25 == 0 {
		deg = -1
	}
	c := make([]*big.Int, deg+1)
	for k := range c {
		c[k] = G.edgeScalar(r)
	}
	if deg >= 1 && r.Intn(4) == 0 { // trailing zero coefficients
		for k := deg; k >= 1 && k > deg-1-r.Intn(3); k-- {
			c[k] = big.NewInt(0)
		}
	}
	cs := make([]group.Scalar, len(c))
	for k := range c {
		cs[k] = G.toScl(c[k])
	}
	desc := fmt.Sprintf("%s coeffs=%s", G.name, hexList(c))
	lib.CaseS("poly", desc)
	var p polynomial.Polynomial
	if pp := lib.Try("polynomial.New", []byte(desc), func() { p = polynomial.New(cs) }); pp != nil {
		polyViol(G, "panic", "polynomial.New", "coeffs", hexList(c), "panic", pp.Value)
		return
	}
	// Degree as documented: -1 for the zero polynomial built from nil;
	// otherwise the index of the last non-zero coefficient (the
	// implementation stops at 0: an all-zero, non-empty list has degree 0).
	wantDeg := len(c) - 1
	for wantDeg > 0 && c[wantDeg].Sign() == 0 {
		wantDeg--
	}
	if wantDeg != len(c)-1 {
		lib.Count("poly:trailing-zero-coefficients")
	}
	if len(c) == 0 {
		lib.Count("poly:zero-polynomial")
	}
	if got := p.Degree(); got != wantDeg {
		polyViol(G, "wrong-degree", "polynomial.Degree", "coeffs", hexList(c), "want", wantDeg, "got", got)
	}
	for k := range c {
		if G.toBig(p.Coefficient(uint(k))).Cmp(c[k]) != 0 {
			polyViol(G, "wrong-coefficient", "polynomial.Coefficient", "coeffs", hexList(c), "k", k)
		}
	}
	pts := []*big.Int{big.NewInt(0), big.NewInt(1), new(big.Int).Sub(q, big.NewInt(1)), G.edgeScalar(r), G.randScalar(r)}
	for _, x := range pts {
		want := refHorner(c, x, q)
		var got group.Scalar
		xs := G.toScl(x)
		lib.Eval()
		if pp := lib.Try("polynomial.Evaluate", []byte(desc+" x="+x.Text(16)), func() { got = p.Evaluate(xs) }); pp != nil {
			polyViol(G, "panic", "polynomial.Evaluate", "coeffs", hexList(c), "x", x.Text(16), "panic", pp.Value)
			continue
		}
		if G.toBig(got).Cmp(want) != 0 {
			polyViol(G, "wrong-value", "polynomial.Evaluate", "coeffs", hexList(c), "x", x.Text(16), "want", want.Text(16), "got", G.toBig(got).Text(16))
		}
		if G.toBig(xs).Cmp(x) != 0 {
			polyViol(G, "argument-modified", "polynomial.Evaluate", "x", x.Text(16))
		}
		lib.Count("poly:evaluate")
		if x.Sign() == 0 {
			lib.Count("poly:eval-at-zero")
		}
	}
	// the caller's coefficient slice is copied by New
	for k := range cs {
		if G.toBig(cs[k]).Cmp(c[k]) != 0 {
			polyViol(G, "argument-modified", "polynomial.New", "k", k)
		}
	}

	// ---- Lagrange basis
	m := r.Intn(21) // 0..20 nodes
	var xs []*big.Int
	if m > 0 {
		// nodes may include zero here (the package does not forbid it)
		seen := map[string]bool{}
		for len(xs) < m {
			x := G.edgeScalar(r)
			if seen[x.String()] {
				continue
			}
			seen[x.String()] = true
			xs = append(xs, x)
		}
	}
	ys := make([]*big.Int, m)
	for k := range ys {
		ys[k] = G.edgeScalar(r)
	}
	xsS, ysS := make([]group.Scalar, m), make([]group.Scalar, m)
	for k := range xs {
		xsS[k], ysS[k] = G.toScl(xs[k]), G.toScl(ys[k])
	}
	ldesc := fmt.Sprintf("%s nodes=%s values=%s", G.name, hexList(xs), hexList(ys))
	lib.CaseS("lagrange", ldesc)
	var L polynomial.LagrangePolynomial
	if pp := lib.Try("polynomial.NewLagrangePolynomial", []byte(ldesc), func() { L = polynomial.NewLagrangePolynomial(xsS, ysS) }); pp != nil {
		polyViol(G, "panic-on-distinct-nodes", "polynomial.NewLagrangePolynomial", "nodes", hexList(xs), "panic", pp.Value)
		return
	}
	if L.Degree() != m-1 {
		polyViol(G, "wrong-degree", "LagrangePolynomial.Degree", "nodes", m, "got", L.Degree())
	}
	evalPts := []*big.Int{big.NewInt(0), G.edgeScalar(r), G.randScalar(r)}
	if m > 0 {
		evalPts = append(evalPts, xs[r.Intn(m)], xs[m-1])
	}
	for _, x := range evalPts {
		want := refLagrangeAt(xs, ys, x, q)
		var got group.Scalar
		lib.Eval()
		if pp := lib.Try("LagrangePolynomial.Evaluate", []byte(ldesc+" x="+x.Text(16)), func() { got = L.Evaluate(G.toScl(x)) }); pp != nil {
			polyViol(G, "panic", "LagrangePolynomial.Evaluate", "nodes", hexList(xs), "x", x.Text(16), "panic", pp.Value)
			continue
		}
		if G.toBig(got).Cmp(want) != 0 {
			polyViol(G, "wrong-value", "LagrangePolynomial.Evaluate", "nodes", hexList(xs), "values", hexList(ys), "x", x.Text(16), "want", want.Text(16), "got", G.toBig(got).Text(16))
		}
		lib.Count("poly:lagrange-evaluate")
		for k := range xs {
			if xs[k].Cmp(x) == 0 {
				lib.Count("poly:eval-at-node")
				if want.Cmp(ys[k]) != 0 {
					panic("reference: Lagrange polynomial does not interpolate")
				}
			}
		}
		if m > 0 {
			j := r.Intn(m)
			wantB := refLagrangeBase(j, xs, x, q)
			var gotB group.Scalar
			lib.Eval()
			if pp := lib.Try("polynomial.LagrangeBase", []byte(ldesc), func() { gotB = polynomial.LagrangeBase(uint(j), xsS, G.toScl(x)) }); pp != nil {
				polyViol(G, "panic", "polynomial.LagrangeBase", "nodes", hexList(xs), "j", j, "x", x.Text(16), "panic", pp.Value)
			} else if G.toBig(gotB).Cmp(wantB) != 0 {
				polyViol(G, "wrong-value", "polynomial.LagrangeBase", "nodes", hexList(xs), "j", j, "x", x.Text(16), "want", wantB.Text(16), "got", G.toBig(gotB).Text(16))
			}
			lib.Count("poly:lagrange-base")
		}
	}
	for k := range xsS {
		if G.toBig(xsS[k]).Cmp(xs[k]) != 0 || G.toBig(ysS[k]).Cmp(ys[k]) != 0 {
			polyViol(G, "argument-modified", "polynomial.NewLagrangePolynomial", "k", k)
		}
	}
	// documented refusals: repeated node, length mismatch, index out of range
	if m >= 2 {
		dup := append([]group.Scalar(nil), xsS...)
		dup[r.Intn(m-1)+1] = G.toScl(xs[0])
		if pp := lib.Try("polynomial.NewLagrangePolynomial:dup", []byte(ldesc), func() { polynomial.NewLagrangePolynomial(dup, ysS) }); pp == nil {
			polyViol(G, "repeated-node-accepted", "polynomial.NewLagrangePolynomial", "nodes", hexList(xs))
		} else {
			lib.Count("poly:lagrange-duplicate-refused")
		}
		if pp := lib.Try("polynomial.NewLagrangePolynomial:len", []byte(ldesc), func() { polynomial.NewLagrangePolynomial(xsS, ysS[:m-1]) }); pp == nil {
			polyViol(G, "length-mismatch-accepted", "polynomial.NewLagrangePolynomial", "nodes", m)
		}
		if pp := lib.Try("polynomial.LagrangeBase:index", []byte(ldesc), func() { polynomial.LagrangeBase(uint(m), xsS, G.toScl(big.NewInt(0))) }); pp == nil {
			polyViol(G, "index-out-of-range-accepted", "polynomial.LagrangeBase", "nodes", m)
		}
	}
}
